"""Hypothesis driver: seeded, shardable, collects one shrunk failure per class.

Hypothesis stops at the first failure; `search` therefore re-runs (bounded)
with every failure class found so far *excluded from raising* (it is still
recorded), so a shallow defect does not hide the next one."""

from hypothesis import HealthCheck, Phase, given, seed as hseed, settings

from vlib.runner import HarnessError


class PropertyFailure(Exception):
    pass


def search(rec, strategy, body, max_examples, seed, max_rounds=4,
           shrink=True):
    """Run `body(case)` over `strategy`.

    body returns None (held) or (class_key, message).  Shrunk failing cases
    are recorded in rec.failures, at most one per class key per round."""
    phases = [Phase.explicit, Phase.generate, Phase.target]
    if shrink:
        phases.append(Phase.shrink)
    for rnd in range(max_rounds):
        last = {}

        @hseed(seed)
        @settings(max_examples=max_examples, database=None, deadline=None,
                  report_multiple_bugs=False, derandomize=False,
                  phases=phases, print_blob=False,
                  suppress_health_check=[HealthCheck.too_slow,
                                         HealthCheck.data_too_large,
                                         HealthCheck.large_base_example])
        @given(strategy)
        def test(case):
            res = body(case)
            if res is None:
                return
            klass, msg = res
            if klass in rec.found or rec.is_known(klass):
                rec.fail(klass, case, msg)
                return
            last['f'] = (klass, case, msg)
            raise PropertyFailure(klass)

        try:
            test()
            return
        except PropertyFailure:
            klass, case, msg = last['f']
            rec.fail(klass, case, msg)
            rec.found.add(klass)
        except HarnessError:
            raise
        except Exception as exc:
            # Hypothesis reports a failure that does not reproduce when it
            # re-runs the same example (the code under test is not a pure
            # function of its input): the property did fail once
            if type(exc).__name__ in ('Flaky', 'FlakyFailure',
                                      'FlakyReplay') and 'f' in last:
                klass, case, msg = last['f']
                rec.fail(klass + ':nondeterministic', case,
                         msg + ' [failed once, passed when re-run]')
                rec.found.add(klass)
                rec.found.add(klass + ':nondeterministic')
            else:
                raise
    rec.note(f'hypothesis driver stopped after {max_rounds} failure rounds')
