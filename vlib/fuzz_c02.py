"""Coverage-guided driver for the C02 property (atheris / libFuzzer).

The fuzz target is Hypothesis' `fuzz_one_input` of the same property that
props/c02.py checks (tree, style, environment) -> compiled value == tree walk,
so libFuzzer's coverage feedback over pycel.excelformula steers the *structured*
generator instead of raw bytes.  The semantic oracle lives inside the target;
a failing input is written as a C02 replay file and the process exits 1.

    python -m vlib.fuzz_c02 <out.json> -runs=N -seed=S [corpus dir]
"""

import json
import os
import sys


def main():
    out_path = sys.argv[1]
    argv = [sys.argv[0]] + sys.argv[2:]
    import atheris
    with atheris.instrument_imports(include=['pycel.excelformula',
                                             'pycel.excelutil']):
        import pycel.excelformula  # noqa: F401
        import pycel.excelutil  # noqa: F401
    import logging
    logging.getLogger('pycel').setLevel(logging.CRITICAL + 1)
    from hypothesis import given, settings, strategies as st, HealthCheck
    from props import c02
    from vlib import xlgrammar as g
    from vlib.runner import Recorder, jdump
    from vlib.xl import FastEnv

    rec = Recorder()
    state = {'env': FastEnv(), 'n': 0}

    def write_stats():
        # (libFuzzer leaves through _exit: stats are written as we go)
        with open(out_path + '.tmp', 'w') as f:
            f.write(json.dumps(dict(
                klass=None, evaluations=rec.evaluations,
                nontrivial=len(rec.nontrivial), labels=dict(rec.labels))))
        os.replace(out_path + '.tmp', out_path)

    @settings(database=None, deadline=None,
              suppress_health_check=list(HealthCheck))
    @given(st.tuples(g.trees(), g.styles(),
                     # (whole bytes and a plain tuple: bytes-backed draws of
                     # sampled_from / fixed_dictionaries reject most inputs)
                     st.tuples(*[st.integers(0, 255)] * len(g.REFS)).map(
                         lambda t: {r: c02.ENV_POOL[i % len(c02.ENV_POOL)]
                                    for r, i in zip(g.REFS, t)})))
    def prop(case):
        tree, style, env = case
        state['n'] += 1
        if state['n'] % 2000 == 0:
            state['env'] = FastEnv()
        res = c02.check_tree(rec, state['env'], tree, style, env)
        if state['n'] % 500 == 0:
            write_stats()
        if res is not None:
            klass, msg = res
            with open(out_path, 'w') as f:
                f.write(jdump(dict(
                    klass=klass, msg=msg, evaluations=rec.evaluations,
                    case=dict(kind='tree', tree=tree, style=list(style),
                              env=env, form='fast'))))
            print(f'FUZZ-FAILURE {klass}: {msg}'[:400], flush=True)
            os._exit(1)

    def target(data):
        prop.hypothesis.fuzz_one_input(data)

    write_stats()
    atheris.Setup(argv, target)
    atheris.Fuzz()


if __name__ == '__main__':
    main()
