"""Common runner for all property checks.

    python -m vlib.runner <ID> [--tier quick|thorough] [--replay FILE] [--seed N]

Exit codes: 0 = property held on everything explored (open known findings are
printed as KNOWN-FINDING lines), 1 = at least one VIOLATION line was printed,
2 = harness error / inconclusive (never a violation).

A property module (props/cXX.py) provides:

    ID, LEVEL, RULE, ASSUMPTIONS, TECHNIQUE
    MIN_NONTRIVIAL = {'quick': n, 'thorough': n}      generator health check
    shards(tier, seed) -> [json-able shard descriptor, ...]
    run_shard(shard, rec)      executes one shard, reporting through rec
    replay(case, rec)          re-executes one saved case without Hypothesis
"""

import argparse
import collections
import contextlib
import fnmatch
import hashlib
import importlib
import io
import json
import logging
import mmap
import multiprocessing
import os
import pickle
import shutil
import signal
import struct
import sys
import tempfile
import time
import traceback

ROOT = os.path.dirname(os.path.dirname(os.path.abspath(__file__)))
MAX_SAMPLES = 8
WALL_LIMIT = {'quick': 900, 'thorough': 4 * 3600}


class HarnessError(Exception):
    """Something is wrong with the harness, never with pycel"""


def jdefault(o):
    try:
        import numpy as np
        if isinstance(o, np.generic):
            return {'__numpy__': type(o).__name__, 'value': o.item()}
    except Exception:   # pragma: no cover
        pass
    if isinstance(o, (set, frozenset)):
        return sorted(o, key=repr)
    if isinstance(o, tuple):
        return list(o)
    if isinstance(o, complex):
        return {'__complex__': [o.real, o.imag]}
    if isinstance(o, bytes):
        return o.decode('latin1')
    return repr(o)


def jdump(o, **kw):
    return json.dumps(o, default=jdefault, ensure_ascii=True, **kw)


def case_hash(key):
    return int.from_bytes(
        hashlib.blake2b(repr(key).encode('utf8', 'surrogatepass'),
                        digest_size=8).digest(), 'big')


class Heartbeat:
    """Shared file through which a worker tells the parent which case it is
    executing, so a case that never returns (e.g. an unbounded big-integer
    power or an iteration that never stops) is reported with its input
    instead of ending the run as inconclusive."""
    SIZE = 1 << 20

    def __init__(self, path):
        self.path = path
        new = not os.path.exists(path)
        self.f = open(path, 'w+b' if new else 'r+b')
        if new:
            self.f.truncate(self.SIZE)
        self.mm = mmap.mmap(self.f.fileno(), self.SIZE)

    def begin(self, klass, case, limit):
        payload = jdump(dict(klass=klass, case=case, limit=limit)).encode()
        if len(payload) > self.SIZE - 16:
            payload = jdump(dict(klass=klass, case='<too large>',
                                 limit=limit)).encode()
        self.mm[16:16 + len(payload)] = payload
        struct.pack_into('<dI', self.mm, 0, time.time(), len(payload))

    def end(self):
        struct.pack_into('<d', self.mm, 0, 0.0)

    def read(self):
        start, n = struct.unpack_from('<dI', self.mm, 0)
        if not start:
            return 0.0, None
        try:
            return start, json.loads(bytes(self.mm[16:16 + n]))
        except ValueError:
            return 0.0, None


class Recorder:
    """Collects what a shard did; merged by the parent process"""
    hb = None

    @contextlib.contextmanager
    def watch(self, klass, case, limit=120):
        """Mark `case` as running; the parent reports it under failure class
        `klass` if it is still running after `limit` seconds."""
        if self.hb is None:
            yield
            return
        self.hb.begin(klass, case, limit)
        try:
            yield
        finally:
            self.hb.end()

    def __init__(self, tier='quick', seed=1, open_patterns=()):
        self.tier = tier
        self.seed = seed
        self.open_patterns = tuple(open_patterns)
        self.evaluations = 0
        self.nontrivial = set()
        self.nontrivial_bulk = 0
        self.labels = collections.Counter()
        self.samples = []
        self.failures = {}     # class key -> (size, case, msg)
        self.fail_counts = collections.Counter()
        self.notes = []
        self.exhaustive = []   # names of sub-domains enumerated completely
        self.found = set()     # class keys already reported (hyp driver)

    # -- cases ---------------------------------------------------------
    def case(self, key=None, nontrivial=False, labels=(), sample=None):
        self.evaluations += 1
        h = None
        if nontrivial:
            h = case_hash(key)
            self.nontrivial.add(h)
            self.labels['nontrivial'] += 1
        for lab in labels:
            self.labels[lab] += 1
        if sample is not None and nontrivial:
            # keep the samples with the smallest hashes: deterministic and
            # spread over the whole run instead of its first few cases
            if len(self.samples) < MAX_SAMPLES or h < self.samples[-1][0]:
                if all(h != s[0] for s in self.samples):
                    self.samples.append((h, sample))
                    self.samples.sort(key=lambda s: s[0])
                    del self.samples[MAX_SAMPLES:]

    def bulk(self, evaluations, nontrivial=0, label=None):
        """Enumerated cases that are distinct by construction"""
        self.evaluations += evaluations
        self.nontrivial_bulk += nontrivial
        if label:
            self.labels[label] += evaluations

    def label(self, lab, n=1):
        self.labels[lab] += n

    def sample(self, sample):
        h = case_hash(sample)
        if all(h != s[0] for s in self.samples):
            self.samples.append((h, sample))
            self.samples.sort(key=lambda s: s[0])
            del self.samples[MAX_SAMPLES:]

    def note(self, text):
        if text not in self.notes:
            self.notes.append(text)

    # -- failures ------------------------------------------------------
    def is_known(self, klass):
        return any(fnmatch.fnmatchcase(klass, p) for p in self.open_patterns)

    def fail(self, klass, case, msg=''):
        """Record a property violation for failure class `klass`"""
        self.fail_counts[klass] += 1
        size = len(jdump(case))
        old = self.failures.get(klass)
        if old is None or size < old[0]:
            self.failures[klass] = (size, case, str(msg)[:2000])

    # -- merge ---------------------------------------------------------
    def export(self):
        return dict(
            evaluations=self.evaluations, nontrivial=self.nontrivial,
            nontrivial_bulk=self.nontrivial_bulk, labels=self.labels,
            samples=self.samples, failures=self.failures,
            fail_counts=self.fail_counts, notes=self.notes,
            exhaustive=self.exhaustive)

    def merge(self, d):
        self.evaluations += d['evaluations']
        self.nontrivial |= d['nontrivial']
        self.nontrivial_bulk += d['nontrivial_bulk']
        self.labels.update(d['labels'])
        for s in d['samples']:
            if all(s[0] != t[0] for t in self.samples):
                self.samples.append(tuple(s))
        self.samples.sort(key=lambda s: s[0])
        del self.samples[MAX_SAMPLES:]
        for klass, item in d['failures'].items():
            old = self.failures.get(klass)
            if old is None or item[0] < old[0]:
                self.failures[klass] = item
        self.fail_counts.update(d['fail_counts'])
        for n in d['notes']:
            self.note(n)
        for e in d['exhaustive']:
            if e not in self.exhaustive:
                self.exhaustive.append(e)


def load_known(prop_id):
    path = os.path.join(ROOT, 'KNOWN_FINDINGS.json')
    if not os.path.exists(path):
        return []
    with open(path) as f:
        data = json.load(f)
    return [e for e in data['findings'] if e['property'] == prop_id]


def _quiet():
    logging.getLogger('pycel').setLevel(logging.CRITICAL + 1)
    logging.getLogger('pycel').propagate = False
    logging.getLogger('pycel').addHandler(logging.NullHandler())


def _task_worker(task, hb_path, res_path):
    """Runs in a forked child: one shard or one replay file"""
    kind, mod_name, payload, tier, seed, open_patterns = task
    _quiet()
    signal.signal(signal.SIGALRM, signal.SIG_DFL)
    # `kill -USR1 <worker pid>` dumps the python stack of a slow worker into
    # $VERIF_STACKS (debugging aid, off by default)
    if os.environ.get('VERIF_STACKS'):
        import faulthandler
        faulthandler.register(
            signal.SIGUSR1, all_threads=True,
            file=open(os.environ['VERIF_STACKS'], 'a'))
    result = None
    try:
        mod = importlib.import_module(mod_name)
        rec = Recorder(tier, seed, open_patterns if kind == 'shard' else ())
        rec.hb = Heartbeat(hb_path)
        with contextlib.redirect_stdout(io.StringIO()):
            if kind == 'shard':
                mod.run_shard(payload, rec)
            else:
                with open(payload) as f:
                    data = json.load(f)
                with rec.watch('hang:replay', data['case']):
                    mod.replay(data['case'], rec)
        result = ('ok', None, rec.export())
    except HarnessError as exc:
        result = ('harness', f'{payload}: {exc}', None)
    except BaseException:
        result = ('harness', f'{payload}:\n{traceback.format_exc()}', None)
    with open(res_path, 'wb') as f:
        pickle.dump(result, f)
    sys.stdout.flush()
    os._exit(0)


def run_tasks(tasks, jobs):
    """Run tasks in forked children (at most `jobs` at a time), watching
    their heartbeats.  Returns one result per task:
    ('ok', None, exported) | ('harness', msg, None) | ('hang', info, None)"""
    tmp = tempfile.mkdtemp(prefix='pv-run-')
    ctx = multiprocessing.get_context('fork')
    pending = list(enumerate(tasks))[::-1]
    running = {}
    results = [None] * len(tasks)
    try:
        while pending or running:
            while pending and len(running) < jobs:
                i, task = pending.pop()
                hb_path = os.path.join(tmp, f'hb-{i}')
                res_path = os.path.join(tmp, f'res-{i}')
                hb = Heartbeat(hb_path)
                proc = ctx.Process(target=_task_worker,
                                   args=(task, hb_path, res_path))
                proc.start()
                running[i] = (proc, hb, res_path)
            time.sleep(0.02)
            for i, (proc, hb, res_path) in list(running.items()):
                if not proc.is_alive():
                    proc.join()
                    if os.path.exists(res_path):
                        with open(res_path, 'rb') as f:
                            results[i] = pickle.load(f)
                    else:
                        results[i] = (
                            'harness', f'worker for {tasks[i][2]} died with '
                            f'exit code {proc.exitcode}', None)
                    del running[i]
                    continue
                start, info = hb.read()
                if info and time.time() - start > info.get('limit', 120):
                    proc.kill()
                    proc.join()
                    results[i] = ('hang', info, None)
                    del running[i]
    finally:
        for proc, hb, res_path in running.values():
            proc.kill()
        shutil.rmtree(tmp, ignore_errors=True)
    return results


def run(prop_id, tier, seed, replay_file=None, jobs=None):
    t0 = time.time()
    _quiet()
    mod_name = f'props.{prop_id.lower()}'
    mod = importlib.import_module(mod_name)
    # import pycel once in the parent so forked workers share it
    import pycel.excelcompiler  # noqa: F401
    for m in pycel.excelformula.ExcelFormula.default_modules:
        importlib.import_module(m)
    known = load_known(prop_id)
    open_entries = [e for e in known if e['status'] == 'open']
    open_patterns = [p for e in open_entries for p in e.get('class_keys', [])]
    rec = Recorder(tier, seed, open_patterns)

    violations = []        # (klass, case, msg, replay path)
    known_hit = collections.Counter()

    def classify(klass):
        for e in open_entries:
            if any(fnmatch.fnmatchcase(klass, p)
                   for p in e.get('class_keys', [])):
                return e
        return None

    # -- 1. committed replay files (regression tier), or the one asked for
    replay_dir = os.path.join(ROOT, 'replays', prop_id)
    if replay_file:
        replay_files = [os.path.abspath(replay_file)]
    else:
        replay_files = sorted(
            os.path.join(replay_dir, f) for f in os.listdir(replay_dir)
            if f.endswith('.json')) if os.path.isdir(replay_dir) else []
    jobs = jobs or int(os.environ.get('VERIF_JOBS', '16'))
    n_replays = len(replay_files)
    tasks = [('replay', mod_name, path, tier, seed, ()) for path in replay_files]
    for path, (status, info, exported) in zip(
            replay_files, run_tasks(tasks, jobs)):
        rel = os.path.relpath(path, ROOT)
        if status == 'harness':
            raise HarnessError(info)
        if status == 'hang':
            failures = {info['klass']: (
                0, info['case'],
                f'did not finish within {info["limit"]} s')}
        else:
            failures = exported['failures']
            rec.labels['replay_evaluations'] += exported['evaluations']
        for klass, (size, case, msg) in failures.items():
            entry = classify(klass)
            if entry is not None:
                known_hit[entry['id']] += 1
            else:
                violations.append((klass, case, msg, rel))
        rec.labels['replay_files'] += 1

    # -- 2. generated search
    if not replay_file:
        shutil.rmtree(os.path.join(replay_dir, 'found'), ignore_errors=True)
        shards = mod.shards(tier, seed)
        tasks = [('shard', mod_name, sh, tier, seed, open_patterns)
                 for sh in shards]
        for shard, (status, info, exported) in zip(
                shards, run_tasks(tasks, jobs)):
            if status == 'harness':
                raise HarnessError(info)
            if status == 'hang':
                rec.fail(info['klass'], info['case'],
                         f'did not finish within {info["limit"]} s '
                         f'(worker killed, rest of shard {shard} not run)')
                rec.note(f'shard {shard} cut short by a hanging case')
            else:
                rec.merge(exported)

        for klass, (size, case, msg) in sorted(rec.failures.items()):
            entry = classify(klass)
            if entry is not None:
                known_hit[entry['id']] += rec.fail_counts[klass]
                continue
            found_dir = os.path.join(replay_dir, 'found')
            os.makedirs(found_dir, exist_ok=True)
            name = hashlib.blake2b(
                (klass + jdump(case)).encode(), digest_size=6).hexdigest()
            path = os.path.join(found_dir, f'{name}.json')
            with open(path, 'w') as f:
                f.write(jdump(dict(property=prop_id, klass=klass, msg=msg,
                                   seed=seed, tier=tier, case=case),
                              indent=1))
            violations.append((klass, case, msg, os.path.relpath(path, ROOT)))

    # -- 3. report
    for e in open_entries:
        if known_hit[e['id']]:
            print(f"KNOWN-FINDING: property={prop_id} {e['text']} "
                  f"[{e['id']}, hit {known_hit[e['id']]}x]")
        else:
            print(f"note: open known finding {e['id']} did not reproduce "
                  f"in this run")
    for klass, case, msg, path in violations:
        print(f'VIOLATION property={prop_id} replay={path}')
        print(f'  class: {klass}')
        print(f'  {msg.splitlines()[0] if msg else ""}'[:400])

    nontrivial = len(rec.nontrivial) + rec.nontrivial_bulk
    wall = time.time() - t0

    if not replay_file:
        need = getattr(mod, 'MIN_NONTRIVIAL', {}).get(tier, 2)
        evidence = dict(
            property_id=prop_id, tier=tier, seed=seed, level=mod.LEVEL,
            coverage=dict(
                evaluations=rec.evaluations,
                distinct_nontrivial=nontrivial,
                rule=mod.RULE,
                samples=[s[1] for s in rec.samples],
                exhaustive=bool(rec.exhaustive) and getattr(
                    mod, 'EXHAUSTIVE_WHOLE', False),
                exhaustive_subdomains=rec.exhaustive,
                class_histogram=dict(sorted(rec.labels.items())),
                replay_files=n_replays,
                known_finding_hits=dict(known_hit),
                failure_classes={k: rec.fail_counts[k]
                                 for k in sorted(rec.failures)},
                technique=getattr(mod, 'TECHNIQUE', ''),
                notes=rec.notes,
            ),
            assumptions=list(getattr(mod, 'ASSUMPTIONS', [])),
            wall_s=round(wall, 2),
            violations=len(violations),
        )
        # (a development run against a scratch tree - a seeded patch, a
        # reverted fix - must not pass for evidence about /repo)
        evdir = 'evidence' if not os.environ.get('PYCEL_REPO_SRC') else \
            os.path.join('evidence', '.scratch')
        os.makedirs(os.path.join(ROOT, evdir), exist_ok=True)
        with open(os.path.join(ROOT, evdir, f'{prop_id}.json'), 'w') as f:
            f.write(jdump(evidence, indent=1))
            f.write('\n')
        if not violations and nontrivial < need:
            raise HarnessError(
                f'generator health check: only {nontrivial} distinct '
                f'non-trivial cases (need {need})')

    print(f'{prop_id} tier={tier} seed={seed} evaluations={rec.evaluations} '
          f'distinct_nontrivial={nontrivial} replays={n_replays} '
          f'violations={len(violations)} wall={wall:.1f}s')
    return 1 if violations else 0


def main(argv=None):
    ap = argparse.ArgumentParser()
    ap.add_argument('prop')
    ap.add_argument('--tier', default=os.environ.get('VERIF_TIER') or 'quick')
    ap.add_argument('--seed', type=int,
                    default=int(os.environ.get('VERIF_SEED') or 1))
    ap.add_argument('--replay')
    ap.add_argument('--jobs', type=int)
    args = ap.parse_args(argv)
    if args.tier not in ('quick', 'thorough'):
        args.tier = 'quick'

    def on_alarm(signum, frame):
        print(f'{args.prop}: wall-clock limit hit, inconclusive',
              file=sys.stderr)
        for child in multiprocessing.active_children():
            try:
                child.kill()
            except Exception:
                pass
        os._exit(2)
    signal.signal(signal.SIGALRM, on_alarm)
    signal.alarm(WALL_LIMIT[args.tier])

    try:
        code = run(args.prop.upper(), args.tier, args.seed, args.replay,
                   args.jobs)
    except HarnessError as exc:
        print(f'HARNESS-ERROR {args.prop}: {exc}', file=sys.stderr)
        code = 2
    except Exception:
        print(f'HARNESS-ERROR {args.prop}:\n{traceback.format_exc()}',
              file=sys.stderr)
        code = 2
    sys.stdout.flush()
    sys.exit(code)


if __name__ == '__main__':
    main()
