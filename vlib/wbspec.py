"""Generated acyclic workbooks ("specs") shared by the model-level checks.

A spec is plain JSON-able data:

    sheets   {sheet: {coord: constant | '=formula'}}
    arrays   [{sheet, ref, formula}]              CSE array formulas
    names    {name: 'Sheet!$A$1:$A$2'}            defined names
    inputs   ['S!A1', ...]      constant cells a history may write to
    formulas ['S!B2', ...]      formula cells (rank order; array members incl.)
    ranges   ['S!A1:B2', ...]   rectangles/unbounded ranges worth evaluating

Acyclic by construction: every cell has a rank (sheet order, then row-major)
and a formula only references cells, rectangles and names whose members all
have a lower rank.  Sheet 'In' holds constants only, so unbounded references
(In!A:A, In!1:1) are always legal."""

from hypothesis import strategies as st

from vlib.xl import compile_spec, exc_key

SHEET = 'S'
SHEET2 = 'T 2'          # needs quoting
SHEET3 = 'Off'         # its used area starts at C3, not at A1
INSHEET = 'In (2) & v1.2+%'     # legal in Excel, hostile to regexes
COLS = 'ABCD'
NROWS = 6

CONSTS = [0, 1, 2, 3, 5, -1, 2.5, 10, 100, -4, 7, 0.5, 1000000, 250000.5]
ODD_CONSTS = ['a', 'b', 'x', '1', '', True, False, None, None]
SET_VALUES = [0, 1, 2, 3, -1, 2.5, 10, 42, 0.0, 1.0, 7, -7.5, 100,
              True, False, None, None, '', 'a', 'zz', '5', 0, 1, 'A', 'Zz',
              'a', 'ZZ']


def q(sheet):
    return f"'{sheet}'" if ' ' in sheet else sheet


@st.composite
def specs(draw, max_formulas=14, with_arrays=True, with_names=True,
          with_unbounded=True, with_second_sheet=True, odd_values=True,
          with_computed=False, focus=None):
    """focus='context': always a CSE block and half of the formulas are the
    range-valued / context-sensitive templates (kinds 28..33)"""
    const = st.sampled_from(CONSTS) if not odd_values else st.one_of(
        st.sampled_from(CONSTS), st.sampled_from(CONSTS),
        st.sampled_from(CONSTS), st.sampled_from(ODD_CONSTS),
        st.integers(-50, 50))
    sheets = {INSHEET: {}, SHEET: {}}     # the active sheet is not the first
    inputs, formulas, ranges, arrays, names = [], [], [], [], {}

    # input-only sheet; B3 is a fixed anchor so that the used area is always
    # A1:B3 (unbounded references clipped to an empty or one-cell area are
    # C05's subject, see its probes)
    for c in 'AB':
        for r in range(1, 4):
            if (c, r) == ('B', 3):
                sheets[INSHEET]['B3'] = 1
                continue
            v = draw(st.one_of(st.sampled_from(CONSTS), st.none()))
            sheets[INSHEET][f'{c}{r}'] = v
            inputs.append(f'{INSHEET}!{c}{r}')

    # rows 1..k of the main sheet are constants
    n_const_rows = draw(st.integers(1, 3))
    for r in range(1, n_const_rows + 1):
        for c in COLS:
            sheets[SHEET][f'{c}{r}'] = draw(const)
            inputs.append(f'{SHEET}!{c}{r}')

    if with_names and draw(st.booleans()):
        names['one_cell'] = f'{SHEET}!$A$1'
        names['first_row'] = f'{SHEET}!$A$1:$D$1'
        if draw(st.booleans()):
            names['two_areas'] = (f'{SHEET}!$A$1:$B$1,'
                                  f'{q(INSHEET)}!$A$1:$A$2')

    def lower_cells(sheet, row, col):
        """addresses (as written from `sheet`) of cells of lower rank"""
        out = []
        for r in range(1, row + 1):
            for ci, c in enumerate(COLS):
                if r < row or ci < col:
                    if f'{c}{r}' in sheets[SHEET] or r <= NROWS:
                        out.append((SHEET, c, r))
        return out

    def ref_text(from_sheet, sheet, c, r, style):
        coord = [f'{c}{r}', f'${c}${r}', f'{c}${r}', f'${c}{r}'][style % 4]
        if sheet != from_sheet or style >= 4:
            return f'{q(sheet)}!{coord}'
        return coord

    def rect_text(from_sheet, row, style):
        """a rectangle inside rows < row of the main sheet"""
        r1 = draw(st.integers(1, row - 1))
        r2 = draw(st.integers(r1, row - 1))
        c1 = draw(st.integers(0, 3))
        c2 = draw(st.integers(c1, 3))
        if (r1, c1) == (r2, c2):
            if c2 < 3:
                c2 += 1
            elif r2 < row - 1:
                r2 += 1
            else:
                c1 -= 1
        a, b = f'{COLS[c1]}{r1}', f'{COLS[c2]}{r2}'
        if style % 3 == 1:
            a, b = f'${COLS[c1]}${r1}', f'${COLS[c2]}${r2}'
        text = f'{a}:{b}'
        full = f'{SHEET}!{COLS[c1]}{r1}:{COLS[c2]}{r2}'
        if from_sheet != SHEET or style % 5 == 4:
            text = f'{q(SHEET)}!{text}'
        return text, full, (r2 - r1 + 1, c2 - c1 + 1)

    def make_formula(from_sheet, row, col):
        cells = lower_cells(from_sheet, row, col) if from_sheet == SHEET \
            else lower_cells(SHEET, NROWS + 1, 0)
        limit_row = row if from_sheet == SHEET else NROWS + 1

        def ref():
            s, c, r = draw(st.sampled_from(cells))
            return ref_text(from_sheet, s, c, r, draw(st.integers(0, 5)))

        def rect():
            text, full, shape = rect_text(from_sheet, limit_row,
                                          draw(st.integers(0, 9)))
            if full not in ranges:
                ranges.append(full)
            return text, shape

        kind = draw(st.integers(0, 35))
        if focus == 'context' and kind % 2:
            kind = draw(st.integers(28, 33 if with_computed else 32))
        if kind == 0:
            return f'={ref()}+{ref()}'
        if kind == 1:
            return f'={ref()}*2-{ref()}'
        if kind == 2:
            return f'={ref()}&"x"&{ref()}'
        if kind == 3:
            return f'=IF({ref()}>{ref()},{ref()},{ref()})'
        if kind == 4:
            return f'=SUM({rect()[0]})'
        if kind == 5:
            return f'=AVERAGE({rect()[0]})'
        if kind == 6:
            return f'=COUNT({rect()[0]})+COUNTIF({rect()[0]},">0")'
        if kind == 7:
            return f'=MAX({rect()[0]},{ref()})'
        if kind == 8:
            return f'=MIN({rect()[0]})-{ref()}'
        if kind == 9:
            t, shape = rect()
            return f'=INDEX({t},{shape[0]},{shape[1]})'
        if kind == 10:
            t, shape = rect()
            if shape[1] >= 2:
                return f'=VLOOKUP({ref()},{t},2,FALSE)'
            return f'=MATCH({ref()},{t},0)'
        if kind == 11 and names:
            name = draw(st.sampled_from(sorted(names)))
            if name == 'one_cell':
                return f'=one_cell+{ref()}'
            return f'=SUM({name})'
        if kind == 12:
            return f'={ref()}'
        if kind == 13:
            return f'=ROW({ref()})+COLUMN({ref()})+{ref()}'
        if kind == 14:
            return f'=IFERROR({ref()}/{ref()},-1)'
        if kind == 15:
            t, shape = rect()
            return f'=SUMPRODUCT({t},{t})'
        if kind == 16 and with_unbounded:
            form = draw(st.sampled_from(['A:A', 'B:B', '1:1', 'A:B', '2:3']))
            full = f'{INSHEET}!{form}'
            if full not in ranges:
                ranges.append(full)
            f = draw(st.sampled_from(['SUM', 'COUNT', 'MAX']))
            return f'={f}({q(INSHEET)}!{form})+{ref()}'
        if kind == 35:
            # a text result with a leading character that file formats and
            # spreadsheets treat specially (apostrophe = Excel's text prefix)
            lead = draw(st.sampled_from(["'", "''", ' ', '#', '"', '- ', '@',
                                         '{', '[', '!', '%', '&', '*', '?']))
            lit = lead.replace('"', '""')
            return f'="{lit}"&{ref()}&"{lit}"'
        if kind == 34 and with_unbounded:
            # the bounded twin of what an unbounded reference is bound to
            # (the used area of the input sheet is A1:B3)
            twin = draw(st.sampled_from(['A1:A3', 'B1:B3', 'A1:B1', 'A1:B3',
                                         'A2:B3']))
            full = f'{INSHEET}!{twin}'
            if full not in ranges:
                ranges.append(full)
            f = draw(st.sampled_from(['SUM', 'COUNT', 'MAX']))
            return f'={f}({q(INSHEET)}!{twin})-{ref()}'
        if kind == 17 and from_sheet == SHEET:
            # intersection of two rectangles that share a cell
            r = draw(st.integers(1, limit_row - 1))
            return f'=SUM(A{r}:C{r} B1:B{limit_row - 1})'
        if kind == 18 and limit_row > 2 and from_sheet == SHEET:
            return f'=SUM(A1:B1:C2)'
        if kind == 19:
            return f'=SUM({rect()[0]},{ref()},3)'
        if kind == 20:
            return f'=({ref()}+{ref()})/2'
        if kind == 21:
            return f'=CHOOSE(1+({ref()}>0),{ref()},{ref()})'
        if kind == 22:
            return f'=-{ref()}^2'
        if kind == 23:
            i = draw(st.sampled_from(inputs[:5]))
            isheet, icoord = i.rsplit('!', 1)
            return f'={q(isheet)}!{icoord}+{ref()}'
        if kind == 24:
            return f'=AND({ref()}>0,{ref()}<10)'
        if kind == 25:
            return f'=ROUND({ref()}/3,2)'
        if kind == 26:
            return f'=COUNTIFS({rect()[0]},"<>"&{ref()})'
        if kind == 27:
            # an empty text as result: stored in a workbook as <v></v>, which
            # openpyxl reads as None (= not calculated, for the compiler)
            return f'=IF({ref()}>0,{ref()},"")'
        if kind == 28:
            # a plain formula whose result is a range (shows its first cell)
            return f'={rect()[0]}'
        if kind == 29:
            return f'=INDEX({rect()[0]},0,1)'
        if kind == 30:
            return f'=IFERROR({rect()[0]},{ref()})'
        if kind == 31:
            return f'=IFNA({rect()[0]},{ref()})+{ref()}'
        if kind == 32:
            return f'=IFS({rect()[0]}>0,{ref()},TRUE,{ref()})'
        if kind == 33 and with_computed and cells:
            # a formula whose result is a computed reference to a cell of
            # lower rank (pycel dereferences a reference only as the result of
            # a whole formula, not inside an expression)
            s2, c2, r2 = draw(st.sampled_from(cells))
            form = draw(st.integers(0, 3))
            if form == 0:
                return f'=OFFSET({q(SHEET)}!$A$1,{r2 - 1},{ord(c2) - 65})'
            if form == 1:
                # (evaluates the cell itself, through the caller's evaluator)
                return (f'=CELL("contents",OFFSET({q(SHEET)}!$A$1,{r2 - 1},'
                        f'{ord(c2) - 65}))')
            if form == 2:
                return (f'=INDEX(OFFSET({q(SHEET)}!$A$1,0,0,{r2},'
                        f'{ord(c2) - 64}),{r2},{ord(c2) - 64})')
            return f'=INDIRECT("{SHEET}!{c2}{r2}")'
        return f'={ref()}-{ref()}'

    # formula rows of the main sheet
    n_formulas = draw(st.integers(2, max_formulas))
    positions = [(r, ci) for r in range(n_const_rows + 1, NROWS + 1)
                 for ci in range(4)]
    taken = set()
    made = 0
    # optionally one CSE array block, 2x2 or 1x2, inside the formula rows
    if with_arrays and (draw(st.integers(0, 2)) == 0 or
                        focus == 'context') and n_const_rows + 2 <= NROWS:
        ar = draw(st.integers(n_const_rows + 1, NROWS - 1))
        ah = draw(st.integers(1, 2))
        aw = 2
        ac = draw(st.integers(0, 2))
        # optionally a second block, in an earlier row, that reads the whole
        # first block (the first one then only reads the constant rows)
        chained = ar >= n_const_rows + 2 and draw(st.integers(0, 2)) == 0
        t, full, shape = rect_text(
            SHEET, n_const_rows + 1 if chained else ar, 0)
        form = draw(st.sampled_from(['={T}*2', '={T}+1', '=ABS({T})',
                                     '={T}&"k"', '={T}>1', '={T}',
                                     '=IF({T}>0,{T},"")', '={T}*{R}',
                                     '={R}+{T}']))
        single = (f'{COLS[draw(st.integers(0, 3))]}'
                  f'{draw(st.integers(1, n_const_rows if chained else ar - 1))}')
        ref = f'{COLS[ac]}{ar}:{COLS[ac + aw - 1]}{ar + ah - 1}'
        arrays.append(dict(sheet=SHEET, ref=ref,
                           formula=form.format(T=t, R=single)))
        ranges.append(f'{SHEET}!{ref}')
        if full not in ranges:
            ranges.append(full)
        for i in range(ah):
            for j in range(aw):
                taken.add((ar + i, ac + j))
                formulas.append(f'{SHEET}!{COLS[ac + j]}{ar + i}')
        if not chained and ac == 0 and draw(st.integers(0, 2)) == 0:
            # a neighbouring block with the very same formula text, and a
            # range that spans both
            ref2 = f'{COLS[2]}{ar}:{COLS[3]}{ar + ah - 1}'
            arrays.append(dict(sheet=SHEET, ref=ref2,
                               formula=arrays[-1]['formula']))
            ranges.append(f'{SHEET}!{ref2}')
            ranges.append(f'{SHEET}!{COLS[0]}{ar}:{COLS[3]}{ar + ah - 1}')
            for i in range(ah):
                for j in (2, 3):
                    taken.add((ar + i, j))
                    formulas.append(f'{SHEET}!{COLS[j]}{ar + i}')
        if chained:
            dr = draw(st.integers(n_const_rows + 1, ar - 1))
            dc = draw(st.integers(0, 2))
            dform = draw(st.sampled_from(['={P}*2', '={P}+1', '={P}']))
            dref = f'{COLS[dc]}{dr}:{COLS[dc + 1]}{dr}'
            arrays.append(dict(sheet=SHEET, ref=dref,
                               formula=dform.format(P=ref)))
            ranges.append(f'{SHEET}!{dref}')
            for j in range(2):
                taken.add((dr, dc + j))
                formulas.append(f'{SHEET}!{COLS[dc + j]}{dr}')
    for (r, ci) in positions:
        if made >= n_formulas:
            break
        if (r, ci) in taken:
            continue
        if draw(st.integers(0, 9)) < 2:
            continue            # leave a hole (blank cell)
        sheets[SHEET][f'{COLS[ci]}{r}'] = make_formula(SHEET, r, ci)
        formulas.append(f'{SHEET}!{COLS[ci]}{r}')
        made += 1

    if made == 0:
        r, ci = next(pos for pos in positions if pos not in taken)
        sheets[SHEET][f'{COLS[ci]}{r}'] = '=A1+B1'
        formulas.append(f'{SHEET}!{COLS[ci]}{r}')

    if with_second_sheet and draw(st.booleans()):
        sheets[SHEET2] = {}
        for r in range(1, draw(st.integers(1, 3)) + 1):
            sheets[SHEET2][f'A{r}'] = make_formula(SHEET2, NROWS + 1, 0)
            formulas.append(f'{SHEET2}!A{r}')

    # a sheet whose used area does not start at A1
    if with_second_sheet and draw(st.integers(0, 4)) < 2:
        sheets[SHEET3] = {}
        for coord in ('C3', 'D3', 'C5')[:draw(st.integers(1, 3))]:
            sheets[SHEET3][coord] = make_formula(SHEET3, NROWS + 1, 0)
            formulas.append(f'{SHEET3}!{coord}')

    # array formulas reference rows above them only; formulas in rows above an
    # array block never reference it because of the rank rule.  But formulas
    # that reference a rectangle overlapping an array block *partially* are
    # fine in pycel (member cells are individually addressable).
    formulas.sort(key=_rank)
    return dict(sheets=sheets, arrays=arrays, names=names, active=SHEET,
                inputs=inputs, formulas=formulas, ranges=ranges)


def _rank(addr):
    sheet, coord = addr.rsplit('!', 1)
    order = {SHEET: 1, SHEET2: 2, SHEET3: 3}.get(sheet, 0)
    col = ord(coord[0]) - 65
    return order, int(coord[1:]), col


def with_inputs(spec, values):
    """copy of spec with input cells replaced by `values` {addr: value}"""
    sheets = {name: dict(cells) for name, cells in spec['sheets'].items()}
    for addr, v in values.items():
        sheet, coord = addr.rsplit('!', 1)
        sheets[sheet][coord] = v
    out = dict(spec)
    out['sheets'] = sheets
    return out


def build_spec(spec):
    return dict(sheets=spec['sheets'], arrays=spec.get('arrays', ()),
                names=spec.get('names') or {}, active=spec.get('active'),
                tables=spec.get('tables', ()))


def evaluate_cell(model, addr):
    """value, or ('raises', key) for a pycel error"""
    try:
        return model.evaluate(addr)
    except Exception as exc:
        return ('raises', exc_key(exc))


def fresh_values(spec, addrs=None, cycles=None):
    """{addr: value} from a brand-new compile of the spec"""
    model = compile_spec(build_spec(spec), cycles=cycles)
    return {a: evaluate_cell(model, a) for a in (addrs or spec['formulas'])}


def all_cells(spec):
    out = []
    for sheet, cells in spec['sheets'].items():
        for coord in cells:
            out.append(f'{sheet}!{coord}')
    for a in spec['formulas']:
        if a not in out:
            out.append(a)
    return out
