"""Order independence of function results within one interpreter.

The function properties quantify over arguments, not over what the process
evaluated before.  A module-level cache or other hidden state keyed by python
equality (True == 1 == 1.0, False == 0, hash-equal) makes a result depend on
which of two Excel-different but python-equal arguments came first.  The probe
evaluates one list of (formula, cells) items in several orders, each order in
a brand-new interpreter, and demands the same result for every item.
"""

import json
import os
import subprocess
import sys

from vlib.xl import exc_key

_CHILD = r'''
import json, sys, logging
logging.getLogger('pycel').setLevel(logging.CRITICAL + 1)
from vlib.xl import FastEnv, exc_key
items = json.load(sys.stdin)
env = FastEnv()
out = []
for idx, formula, cells in items:
    try:
        v = env.eval(formula, cells)
        out.append([idx, 'value', type(v).__name__, repr(v)])
    except Exception as exc:
        out.append([idx, 'raises', exc_key(exc), repr(exc)[:200]])
json.dump(out, sys.stdout)
'''


def run_order(indexed_items):
    proc = subprocess.run([sys.executable, '-c', _CHILD],
                          input=json.dumps(indexed_items), text=True,
                          capture_output=True, env=dict(os.environ),
                          timeout=600)
    if proc.returncode != 0:
        from vlib.runner import HarnessError
        raise HarnessError('purity child failed: ' + proc.stderr[-400:])
    return {r[0]: tuple(r[1:]) for r in json.loads(proc.stdout)}


def order_independence(rec, items, name, orders=None):
    """items: [(formula, cells)] with JSON-able cells.  Fails with class
    `<name>:order-dependent` if an item's result differs between orders."""
    indexed = [[i, f, c] for i, (f, c) in enumerate(items)]
    n = len(indexed)
    orders = orders or {
        'forward': indexed,
        'reversed': indexed[::-1],
        'interleaved': indexed[1::2] + indexed[0::2],
    }
    results = {label: run_order(order) for label, order in orders.items()}
    base_label = next(iter(results))
    base = results[base_label]
    differing = 0
    for i, formula, cells in indexed:
        rec.case(key=('purity', name, formula, repr(cells)), nontrivial=True,
                 labels=('purity',),
                 sample=dict(formula=formula, cells=cells))
        for label, res in results.items():
            if res[i] != base[i]:
                differing += 1
                rec.fail(f'{name}:order-dependent', dict(
                    kind='purity', items=[[f, c] for _, f, c in indexed],
                    index=i),
                    f'{formula} with {cells} = {base[i][2]} when evaluated '
                    f'in {base_label} order of {n} formulas, {res[i][2]} in '
                    f'{label} order (fresh interpreter each)')
                break
    return results


# python-equal (hash-equal) but Excel-different values, and their text forms
ALIASES = [True, 1, 1.0, '1', False, 0, 0.0, '0', None, '', 2, 2.0, '2',
           'a', 'A', -1, -1.0, '-1']
SMALL = [True, 1, 1.0, '1', False, 0, 0.0, None, 'a', 'A']


def alias_items(templates, pool=None):
    """templates: formulas over A1 (and B1, C1); every combination of the
    pool over the cells a template mentions"""
    import itertools
    pool = ALIASES if pool is None else pool
    items = []
    for t in templates:
        names = [n for n in ('A1', 'B1', 'C1') if n in t]
        p = pool if len(names) < 3 else SMALL
        for combo in itertools.product(p, repeat=len(names)):
            items.append((t, dict(zip(names, combo))))
    return items


def is_case(case):
    return isinstance(case, dict) and case.get('kind') == 'purity'


def run(rec, name, templates, pool=None):
    items = alias_items(templates, pool)
    order_independence(rec, items, name)
    rec.exhaustive.append(
        f'{len(templates)} formula templates x python-equal argument aliases '
        f'({len(items)} formulas) in three evaluation orders, fresh '
        f'interpreter each')


def replay(rec, name, case):
    order_independence(rec, [(f, c) for f, c in case['items']], name)


# -- workbook level: a model does not depend on the models built before it ----

_MODEL_CHILD = r'''
import json, sys, logging
logging.getLogger('pycel').setLevel(logging.CRITICAL + 1)
from vlib import wbspec, models
from vlib.xl import compile_spec, exc_key
jobs = json.load(sys.stdin)
out = []
live = []
for idx, spec in jobs:
    res = {}
    try:
        model = compile_spec(wbspec.build_spec(spec))
        for addr in spec['formulas'] + spec.get('ranges', []):
            v = models.safe_eval(model, addr)
            res[addr] = [type(v).__name__, repr(v)]
        live.append((res, spec, model))
    except Exception as exc:
        res['<compile>'] = ['raises', exc_key(exc)]
    out.append([idx, res])
# second phase: every model is still alive; write an input of each in turn
# and evaluate it again (a model must not see the cells of a later one)
for res, spec, model in live:
    try:
        addr = next(a for a in spec['inputs'] if a in model.cell_map)
        model.set_value(addr, 7)
        for addr in spec['formulas']:
            v = models.safe_eval(model, addr)
            res['after-write:' + addr] = [type(v).__name__, repr(v)]
    except Exception as exc:
        res['<second-phase>'] = ['raises', exc_key(exc)]
json.dump(out, sys.stdout)
'''


def model_order_independence(rec, specs, name):
    """Every workbook spec is compiled and fully evaluated in a brand-new
    interpreter in forward and in reversed order of the list (sheet titles
    are the same in all specs, sizes differ): state that leaks from one
    model into the next - a cache keyed by sheet title, a moved active sheet,
    a class attribute - shows as a result that depends on the order."""
    indexed = [[i, s] for i, s in enumerate(specs)]
    results = {}
    for label, order in (('forward', indexed), ('reversed', indexed[::-1]),
                         ('alone-last', indexed[-1:]),
                         ('alone-first', indexed[:1])):
        proc = subprocess.run([sys.executable, '-c', _MODEL_CHILD],
                              input=json.dumps(order), text=True,
                              capture_output=True, env=dict(os.environ),
                              timeout=900)
        if proc.returncode != 0:
            from vlib.runner import HarnessError
            raise HarnessError('model child failed: ' + proc.stderr[-400:])
        results[label] = dict((i, r) for i, r in json.loads(proc.stdout))
    base = results['forward']
    for i, spec in indexed:
        rec.case(key=('model-order', name, repr(spec['sheets'])),
                 nontrivial=True, labels=('model-order',),
                 sample=dict(sheets=spec['sheets']))
        for label, res in results.items():
            if i in res and res[i] != base[i]:
                addr = next(a for a in base[i]
                            if res[i].get(a) != base[i].get(a))
                rec.fail(f'{name}:model-order-dependent', dict(
                    kind='model-order', specs=specs, index=i),
                    f'{addr} = {base[i].get(addr)} when the workbook is '
                    f'number {i + 1} of {len(specs)} compiled in one '
                    f'interpreter, {res[i].get(addr)} in {label} order')
                return
