"""Excel formula grammar: AST, renderer, reference Pratt parser, strategies.

AST nodes are JSON-able lists:
    ['num', 2] ['text', 'a"b'] ['bool', True] ['err', '#N/A'] ['ref', 'A1']
    ['paren', t] ['neg', t] ['pos', t] ['pct', t] ['bin', op, l, r]
    ['call', NAME, [args...]]

Precedence per the property statement (tightest first): unary minus, %, ^,
* /, + -, &, comparisons; binary operators are left-associative."""

from hypothesis import strategies as st

PREC = {'=': 1, '<>': 1, '<': 1, '<=': 1, '>': 1, '>=': 1, '&': 2,
        '+': 3, '-': 3, '*': 4, '/': 4, '^': 5}
P_PCT, P_UNARY, P_ATOM = 6, 7, 9
BINOPS = list(PREC)


def prec(t):
    k = t[0]
    if k == 'bin':
        return PREC[t[1]]
    if k == 'pct':
        return P_PCT
    if k in ('neg', 'pos'):
        return P_UNARY
    return P_ATOM


def _text_lit(s):
    return '"' + s.replace('"', '""') + '"'


def _num_lit(v):
    if isinstance(v, int):
        return str(v)
    s = repr(v)
    if 'e' in s:
        mant, exp = s.split('e')
        sign = '-' if exp.startswith('-') else '+'
        s = f'{mant}E{sign}{abs(int(exp)):02d}'
    return s


class Style:
    """Rendering choices; `bits` is a list of ints consumed in order"""

    def __init__(self, bits=()):
        self.bits = list(bits)
        self.i = 0

    def take(self, n=2):
        if not self.bits:
            return 0
        b = self.bits[self.i % len(self.bits)]
        self.i += 1
        return b % n


def render(t, style=None):
    return '=' + _render(t, style or Style())


def _wrap(child, need, style):
    s = _render(child, style)
    return f'({s})' if need else s


def _render(t, style):
    k = t[0]
    if k == 'num':
        return _num_lit(t[1])
    if k == 'text':
        return _text_lit(t[1])
    if k == 'bool':
        return 'TRUE' if t[1] else 'FALSE'
    if k == 'err':
        return t[1]
    if k == 'ref':
        return t[1]
    if k == 'omit':
        # an omitted function argument: nothing, or only whitespace
        return ['', ' ', '  ', '\n'][style.take(4)]
    if k == 'paren':
        pad = ' ' if style.take(4) == 1 else ''
        return f'({pad}{_render(t[1], style)}{pad})'
    if k in ('neg', 'pos'):
        sign = '-' if k == 'neg' else '+'
        return sign + _wrap(t[1], prec(t[1]) < P_UNARY, style)
    if k == 'pct':
        return _wrap(t[1], prec(t[1]) < P_PCT, style) + '%'
    if k == 'bin':
        op, left, right = t[1], t[2], t[3]
        p = PREC[op]
        ls = _wrap(left, prec(left) < p, style)
        rs = _wrap(right, prec(right) <= p, style)
        pad = ' ' if style.take(3) == 1 else ''
        return f'{ls}{pad}{op}{pad}{rs}'
    if k == 'call':
        name = t[1]
        c = style.take(3)
        name = name.lower() if c == 1 else name.capitalize() if c == 2 else name
        sep = ', ' if style.take(3) == 1 else ','
        return f'{name}({sep.join(_render(a, style) for a in t[2])})'
    raise ValueError(t)


# ---------------------------------------------------------------------------
# reference parser (Pratt) of the grammar the renderer targets
# ---------------------------------------------------------------------------

import re  # noqa: E402

_TOKEN_RE = re.compile(r'''
    (?P<ws>\s+)
  | (?P<num>(\d+\.?\d*|\.\d+)(E[+-]\d+)?)
  | (?P<text>"(?:[^"]|"")*")
  | (?P<err>\#NULL!|\#DIV/0!|\#VALUE!|\#REF!|\#NAME\?|\#NUM!|\#N/A)
  | (?P<func>[A-Za-z_][A-Za-z0-9_.]*\()
  | (?P<ref>\$?[A-Z]{1,3}\$?\d+)
  | (?P<bool>TRUE|FALSE)
  | (?P<op><>|<=|>=|[-+*/^&=<>%(),])
''', re.X)


def tokenize(s):
    pos, out = 0, []
    while pos < len(s):
        m = _TOKEN_RE.match(s, pos)
        if not m:
            raise ValueError(f'bad token at {pos}: {s[pos:]!r}')
        pos = m.end()
        kind = m.lastgroup
        if kind != 'ws':
            out.append((kind, m.group(kind)))
    return out


class _Parser:
    def __init__(self, tokens):
        self.t = tokens
        self.i = 0

    def peek(self):
        return self.t[self.i] if self.i < len(self.t) else (None, None)

    def next(self):
        tok = self.peek()
        self.i += 1
        return tok

    def expr(self, min_prec=0):
        left = self.unary()
        while True:
            kind, val = self.peek()
            if kind == 'op' and val in PREC and PREC[val] > min_prec:
                self.next()
                right = self.expr(PREC[val])
                left = ['bin', val, left, right]
            else:
                return left

    def unary(self):
        # prefix signs bind tighter than postfix %: -2% is (-2)%
        signs = []
        while self.peek()[0] == 'op' and self.peek()[1] in '+-':
            signs.append(self.next()[1])
        node = self.atom()
        for sign in reversed(signs):
            node = ['neg' if sign == '-' else 'pos', node]
        while self.peek() == ('op', '%'):
            self.next()
            node = ['pct', node]
        return node

    def atom(self):
        kind, val = self.next()
        if kind == 'num':
            v = float(val)
            if '.' not in val and 'E' not in val:
                v = int(val)
            return ['num', v]
        if kind == 'text':
            return ['text', val[1:-1].replace('""', '"')]
        if kind == 'bool':
            return ['bool', val == 'TRUE']
        if kind == 'err':
            return ['err', val]
        if kind == 'ref':
            return ['ref', val]
        if kind == 'func':
            args = []

            def slot():
                # an empty slot is an omitted argument
                if self.peek() in (('op', ','), ('op', ')')):
                    return ['omit']
                return self.expr()
            if self.peek() != ('op', ')'):
                args.append(slot())
                while self.peek() == ('op', ','):
                    self.next()
                    args.append(slot())
            assert self.next() == ('op', ')')
            return ['call', val[:-1].upper(), args]
        if (kind, val) == ('op', '('):
            inner = self.expr()
            assert self.next() == ('op', ')'), 'missing )'
            return ['paren', inner]
        raise ValueError(f'unexpected {kind} {val}')


def parse(formula):
    assert formula.startswith('=')
    p = _Parser(tokenize(formula[1:]))
    tree = p.expr()
    assert p.i == len(p.t), f'trailing tokens in {formula!r}'
    return tree


def strip_parens(t):
    k = t[0]
    if k == 'paren':
        return strip_parens(t[1])
    if k in ('neg', 'pos', 'pct'):
        return [k, strip_parens(t[1])]
    if k == 'bin':
        return ['bin', t[1], strip_parens(t[2]), strip_parens(t[3])]
    if k == 'call':
        return ['call', t[1], [strip_parens(a) for a in t[2]]]
    return t


def ops_of(t, acc=None):
    acc = [] if acc is None else acc
    k = t[0]
    if k == 'bin':
        acc.append(t[1])
        ops_of(t[2], acc)
        ops_of(t[3], acc)
    elif k in ('neg', 'pos', 'pct', 'paren'):
        if k != 'paren':
            acc.append(k)
        ops_of(t[1], acc)
    elif k == 'call':
        acc.append('call')
        for a in t[2]:
            ops_of(a, acc)
    elif k == 'omit':
        acc.append('omit')
    return acc


def shape(t, depth=2):
    k = t[0]
    if k == 'omit':
        return '_'
    if depth == 0 or k in ('num', 'text', 'bool', 'err', 'ref'):
        return 'L' if k in ('num', 'text', 'bool', 'err', 'ref') else '..'
    if k == 'paren':
        return shape(t[1], depth)
    if k in ('neg', 'pos', 'pct'):
        return f'{k}({shape(t[1], depth - 1)})'
    if k == 'bin':
        return f'({shape(t[2], depth - 1)}{t[1]}{shape(t[3], depth - 1)})'
    return f'{t[1]}({",".join(shape(a, depth - 1) for a in t[2])})'


def adjacent_unary_binary(t):
    """a unary/postfix operator directly adjacent to a binary operator"""
    k = t[0]
    if k == 'bin':
        for c in (t[2], t[3]):
            if c[0] in ('neg', 'pct'):
                return True
        return adjacent_unary_binary(t[2]) or adjacent_unary_binary(t[3])
    if k in ('neg', 'pct'):
        return t[1][0] in ('bin', 'paren') and _has_bin(t[1]) or \
            adjacent_unary_binary(t[1])
    if k in ('paren', 'pos'):
        return adjacent_unary_binary(t[1])
    if k == 'call':
        return any(adjacent_unary_binary(a) for a in t[2])
    return False


def _has_bin(t):
    return 'bin' in str(t)


def texts_of(t, acc=None):
    acc = [] if acc is None else acc
    if t[0] == 'text':
        acc.append(t[1])
    elif t[0] in ('neg', 'pos', 'pct', 'paren'):
        texts_of(t[1], acc)
    elif t[0] == 'bin':
        texts_of(t[2], acc)
        texts_of(t[3], acc)
    elif t[0] == 'call':
        for a in t[2]:
            texts_of(a, acc)
    return acc


def nontrivial(t):
    ops = ops_of(t)
    precs = {PREC.get(o, {'neg': 7, 'pos': 7, 'pct': 6}.get(o, 9))
             for o in ops if o not in ('call', 'omit')}
    if len(precs) >= 2:
        return True
    if adjacent_unary_binary(t):
        return True
    return any(re.search(r'[^A-Za-z0-9 ]', s) for s in texts_of(t))


# ---------------------------------------------------------------------------
# strategies
# ---------------------------------------------------------------------------

TEXT_ALPHABET = list('abXYZ 019') + ['"', '\\', '\n', '\r', '\t', '{', '}',
                                     '#', "'", ',', ';', '(', ')', '%', '&',
                                     '=', '<', '!', '$', ':', 'é', '日',
                                     ' ', '\U0001F600', '_', '.', '-']
REFS = ['A1', 'B1', 'C1', 'D1']
# scalar functions: name -> arity choices
FUNCS = {
    'IF': (2, 3), 'AND': (1, 2, 3), 'OR': (1, 2), 'NOT': (1,), 'ABS': (1,),
    'SUM': (1, 2, 3), 'MAX': (1, 2), 'MIN': (1, 2), 'ROUND': (2,),
    'LEN': (1,), 'CONCATENATE': (1, 2, 3), 'LEFT': (1, 2), 'IFERROR': (2,),
    'ISNUMBER': (1,), 'ISTEXT': (1,), 'MOD': (2,), 'UPPER': (1,),
    'INT': (1,), 'SIGN': (1,), 'ISERROR': (1,), 'N': (1,),
    'TRUE': (0,), 'FALSE': (0,), 'PI': (0,),
}


def leaves():
    return st.one_of(
        st.integers(0, 12).map(lambda v: ['num', v]),
        st.sampled_from([0.5, 1.5, 2.25, 10, 100, 0.1, 3.0]).map(
            lambda v: ['num', v]),
        st.sampled_from(REFS).map(lambda r: ['ref', r]),
        st.sampled_from(REFS).map(lambda r: ['ref', r]),
        st.text(alphabet=TEXT_ALPHABET, max_size=4).map(lambda s: ['text', s]),
        st.sampled_from(['1', '2.5', 'a', '']).map(lambda s: ['text', s]),
        st.booleans().map(lambda b: ['bool', b]),
        st.sampled_from(['#N/A', '#DIV/0!', '#VALUE!', '#REF!', '#NAME?',
                         '#NUM!', '#NULL!']).map(lambda e: ['err', e]),
    )


def _call(children):
    def build(name, args, omit):
        arities = FUNCS[name]
        n = arities[len(args) % len(arities)]
        out = list(args[:n]) if n else []
        if n >= 2 and omit < n:
            # an omitted argument (never the only one: F( ) has no arguments)
            out[omit] = ['omit']
        return ['call', name, out]
    return st.builds(build, st.sampled_from(sorted(FUNCS)),
                     st.lists(children, min_size=3, max_size=3),
                     st.integers(0, 11))


def trees(max_leaves=12):
    return st.recursive(
        leaves(),
        lambda children: st.one_of(
            st.builds(lambda op, a, b: ['bin', op, a, b],
                      st.sampled_from(BINOPS), children, children),
            st.builds(lambda op, a, b: ['bin', op, a, b],
                      st.sampled_from(['^', '-', '/', '*', '+']),
                      children, children),
            children.map(lambda c: ['neg', c]),
            children.map(lambda c: ['neg', c]),
            children.map(lambda c: ['pct', c]),
            children.map(lambda c: ['pos', c]),
            children.map(lambda c: ['paren', c]),
            _call(children),
        ),
        max_leaves=max_leaves)


def styles():
    return st.lists(st.integers(0, 11), min_size=0, max_size=8)
