"""Plugin library loaded through ExcelCompiler(plugins='vlib.plugin').

VCOUNT(tag, x)  records (tag, x) and returns x          (pass counting)
VFAIL(tag, x)   raises on configured call numbers, else returns x
"""

CALLS = []            # [(tag, value)]
FAIL_ON = {}          # tag -> set of call numbers (1-based) or 'all'
FAIL_CALLS = {}       # tag -> number of calls so far
RAISED = [0]          # number of injected faults raised so far
FAIL_EXC = [None]     # exception class to raise (None: InjectedFault)


class InjectedFault(Exception):
    pass


def reset():
    del CALLS[:]
    FAIL_ON.clear()
    FAIL_CALLS.clear()
    RAISED[0] = 0
    FAIL_EXC[0] = None


def vcount(tag, x):
    CALLS.append((tag, x))
    return x


def vfail(tag, x):
    n = FAIL_CALLS[tag] = FAIL_CALLS.get(tag, 0) + 1
    rule = FAIL_ON.get(tag)
    if rule == 'all' or (rule and n in rule):
        RAISED[0] += 1
        if FAIL_EXC[0] is not None:
            # the kind of error a buggy plugin or library function ends in
            raise FAIL_EXC[0](f'injected {FAIL_EXC[0].__name__} {tag} call {n}')
        raise InjectedFault(f'injected fault {tag} call {n}')
    return x
