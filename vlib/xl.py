"""Excel value model, fast formula evaluation and workbook builders."""

import math
import os
import re
import shutil
import tempfile
import zipfile
from xml.sax.saxutils import escape as xml_escape

ERRORS = ('#NULL!', '#DIV/0!', '#VALUE!', '#REF!', '#NAME?', '#NUM!', '#N/A')
ERRSET = frozenset(ERRORS)


def klass(v):
    """Excel class of a python value ('other:<type>' if not an Excel scalar)"""
    if v is None:
        return 'blank'
    if isinstance(v, bool):
        return 'logical'
    if type(v) in (int, float) or (
            isinstance(v, (int, float)) and
            type(v).__module__.startswith('ruamel')):
        if isinstance(v, float) and not math.isfinite(v):
            return 'other:nonfinite'
        if isinstance(v, int) and abs(v) >= 2 ** 1024:
            # pycel turns integral floats into python ints; results beyond
            # the double range are not Excel numbers (and float() of them
            # raises)
            return 'other:int-beyond-double'
        return 'number'
    if isinstance(v, str):
        return 'error' if v in ERRSET else 'text'
    if type(v).__module__ == 'numpy':
        import numpy as np
        if isinstance(v, np.bool_):
            return 'logical'
        if isinstance(v, (np.integer, np.floating)):
            return 'number' if np.isfinite(v) else 'other:nonfinite'
    return f'other:{type(v).__module__}.{type(v).__name__}'


def numpy_leak(v):
    """True for numpy scalars (numbers to Excel, but not python int/float)"""
    return type(v).__module__ == 'numpy'


def is_scalar(v):
    return not klass(v).startswith('other')


def same(a, b, rel=1e-9, abs_tol=1e-12):
    """Same Excel class and same value.  Logical never equals number."""
    if isinstance(a, (tuple, list)) or isinstance(b, (tuple, list)):
        if not (isinstance(a, (tuple, list)) and isinstance(b, (tuple, list))):
            return False
        return len(a) == len(b) and all(
            same(x, y, rel, abs_tol) for x, y in zip(a, b))
    ka, kb = klass(a), klass(b)
    if ka != kb:
        return False
    if ka == 'number':
        return a == b or math.isclose(a, b, rel_tol=rel, abs_tol=abs_tol)
    if ka.startswith('other'):
        try:
            return bool(a == b)
        except Exception:
            return False
    return a == b


def render(v):
    """Excel rendering of a scalar as text (for & and text functions)"""
    if v is None:
        return ''
    if isinstance(v, bool):
        return 'TRUE' if v else 'FALSE'
    if isinstance(v, (int, float)):
        if float(v) == int(v):
            return str(int(v))
        text = repr(float(v))
        if 'e' in text:
            # (python's notation for small numbers is not Excel's)
            import decimal
            mantissa, exponent = text.split('e')
            if -10 < int(exponent) < 0:
                return format(decimal.Decimal(text), 'f')
            return f'{mantissa}E{int(exponent):+03d}'
        return text
    return v


def lit(v):
    """Render a python scalar as an Excel formula literal"""
    if v is None:
        raise ValueError('blank has no literal')
    if isinstance(v, bool):
        return 'TRUE' if v else 'FALSE'
    if isinstance(v, (int, float)):
        s = repr(v)
        if s.startswith('-'):
            return s     # unary minus + literal
        return s
    if v in ERRSET:
        return v
    return '"' + v.replace('"', '""') + '"'


NUMERIC_TEXT_RE = re.compile(
    r'^[+-]?(\d+\.?\d*|\.\d+)([eE][+-]?\d+)?$', re.ASCII)


def strict_numeric_text(s):
    return isinstance(s, str) and NUMERIC_TEXT_RE.match(s) is not None


# ---------------------------------------------------------------------------
# fast path: compile a formula once, evaluate against dict environments
# ---------------------------------------------------------------------------

class FakeCell:
    """Minimal stand-in for excelcompiler._Cell when compiling a formula"""
    excel = None

    def __init__(self, address='S!Z99'):
        from pycel.excelutil import AddressCell
        self.address = AddressCell(address)
        self.sheet = self.address.sheet
        self.row = self.address.row
        self.col_idx = self.address.col_idx


class FastEnv:
    """Evaluate formula text against a dict of cell values (sheet 'S')

    Rectangular ranges are served from the same dict (missing cells blank).
    """

    def __init__(self, cells=None, sheet='S', plugins=None):
        from pycel.excelformula import ExcelFormula
        from pycel.excelutil import AddressRange
        self.ExcelFormula = ExcelFormula
        self.AddressRange = AddressRange
        self.sheet = sheet
        self.cells = dict(cells or {})
        self.cache = {}
        self.cell = FakeCell(f'{sheet}!Z99')
        self.ctx = ExcelFormula.build_eval_context(
            self._cell, self._range, plugins=plugins)

    def _strip(self, address):
        address = str(address)
        return address.split('!', 1)[1] if '!' in address else address

    def _cell(self, address):
        return self.cells.get(self._strip(address))

    def _range(self, address):
        if address in ERRSET:
            return address
        rng = self.AddressRange(str(address))
        return tuple(tuple(self.cells.get(a.coordinate) for a in row)
                     for row in rng.rows)

    def formula(self, text):
        f = self.cache.get(text)
        if f is None:
            f = self.cache[text] = self.ExcelFormula(text, cell=self.cell)
        return f

    def eval(self, text, cells=None):
        if cells is not None:
            self.cells = cells
        return self.ctx(self.formula(text))


def fast_eval(text, cells=None):
    return FastEnv(cells).eval(text)


def exc_key(exc):
    """Failure class key fragment for an exception from pycel"""
    name = type(exc).__name__
    inner = ''
    lines = [ln for ln in str(exc).splitlines() if ln.strip()]
    if name in ('FormulaEvalError', 'UnknownFunction') and len(lines) >= 2:
        cand = lines[-2] if lines[-1].startswith('Eval:') else lines[-1]
        for ln in reversed(lines):
            if re.match(r'^[A-Za-z_.]+(Error|Exception|Warning)\b', ln):
                cand = ln
                break
        inner = cand.split(':')[0].strip()
    return f'{name}({inner})' if inner else name


# ---------------------------------------------------------------------------
# workbook builders
# ---------------------------------------------------------------------------

def build_workbook(spec):
    """spec: dict(sheets={name: {coord: value-or-formula}},
                  arrays=[dict(sheet=, ref=, formula=)],
                  names={name: 'Sheet!$A$1:$A$2'},
                  iterate=dict(count=, delta=) or None,
                  active=sheetname)
    Returns a *fresh* openpyxl Workbook (pycel mutates workbooks)."""
    from openpyxl import Workbook
    from openpyxl.workbook.defined_name import DefinedName
    wb = Workbook()
    first = True
    for name, cells in spec['sheets'].items():
        if first:
            ws = wb.active
            ws.title = name
            first = False
        else:
            ws = wb.create_sheet(name)
        for coord, v in cells.items():
            if v is not None:
                ws[coord] = v
    for arr in spec.get('arrays', ()):
        ws = wb[arr['sheet']]
        first_cell = arr['ref'].split(':')[0]
        ws[first_cell] = arr['formula']
        ws.formula_attributes[first_cell] = {'t': 'array', 'ref': arr['ref']}
    for name, target in (spec.get('names') or {}).items():
        dn = DefinedName(name=name, attr_text=target)
        if hasattr(wb.defined_names, 'append'):
            wb.defined_names.append(dn)
        else:
            wb.defined_names[name] = dn
    for tab in spec.get('tables', ()):
        # dict(sheet=, name=, ref=): an Excel table; its first row holds the
        # column headers
        from openpyxl.worksheet.table import Table
        ws = wb[tab['sheet']]
        table = Table(displayName=tab['name'], ref=tab['ref'])
        # (openpyxl names the columns only when the file is written)
        table._initialise_columns()
        header = next(ws.iter_rows(
            min_row=ws[tab['ref']][0][0].row, max_row=ws[tab['ref']][0][0].row,
            min_col=ws[tab['ref']][0][0].column,
            max_col=ws[tab['ref']][0][-1].column))
        for column, cell in zip(table.tableColumns, header):
            column.name = str(cell.value)
        ws.add_table(table)
    it = spec.get('iterate')
    if it:
        wb.calculation.iterate = True
        wb.calculation.iterateCount = it.get('count', 100)
        wb.calculation.iterateDelta = it.get('delta', 0.001)
    if spec.get('active'):
        wb.active = wb.sheetnames.index(spec['active'])
    return wb


_scratch_root = None


def scratch_dir():
    """Per-process scratch directory (removed at exit)"""
    global _scratch_root
    if _scratch_root is None or not os.path.isdir(_scratch_root) or \
            not _scratch_root.endswith(str(os.getpid())):
        import atexit
        base = tempfile.mkdtemp(prefix='pycel-verif-')
        path = os.path.join(base, str(os.getpid()))
        os.makedirs(path)
        _scratch_root = path
        pid = os.getpid()

        def cleanup(base=base, pid=pid):
            if os.getpid() == pid:
                shutil.rmtree(base, ignore_errors=True)
        atexit.register(cleanup)
    return _scratch_root


class TempDir:
    def __enter__(self):
        self.path = tempfile.mkdtemp(prefix='pv-')
        return self.path

    def __exit__(self, *exc):
        shutil.rmtree(self.path, ignore_errors=True)


def compile_spec(spec, cycles=None, plugins=None, filename=None):
    """Fresh ExcelCompiler over an in-memory workbook (no stored results)"""
    from pycel.excelcompiler import ExcelCompiler
    from pycel.excelwrapper import ExcelOpxWrapperNoData
    wb = build_workbook(spec)
    excel = ExcelOpxWrapperNoData(wb, filename=filename or 'verif-model')
    return ExcelCompiler(excel=excel, cycles=cycles, plugins=plugins)


def _v_xml(value):
    """(type attribute, text) for a stored <v> element"""
    if isinstance(value, bool):
        return 'b', '1' if value else '0'
    if isinstance(value, (int, float)):
        return None, repr(value)
    if value in ERRSET:
        return 'e', value
    return 'str', value


def write_xlsx_with_results(spec, results, path):
    """Write spec to `path` as xlsx with stored formula results.

    `results`: {sheet: {coord: value}} for formula cells.  openpyxl can not
    write <f> and <v> together, so the sheet XML is patched afterwards."""
    from openpyxl.worksheet.formula import ArrayFormula
    from openpyxl import Workbook
    from openpyxl.workbook.defined_name import DefinedName
    wb = Workbook()
    first = True
    for name, cells in spec['sheets'].items():
        if first:
            ws = wb.active
            ws.title = name
            first = False
        else:
            ws = wb.create_sheet(name)
        for coord, v in cells.items():
            if v is not None:
                ws[coord] = v
    for arr in spec.get('arrays', ()):
        ws = wb[arr['sheet']]
        first_cell = arr['ref'].split(':')[0]
        ws[first_cell] = ArrayFormula(arr['ref'], arr['formula'])
        # the other members of the array only carry their stored value
        from openpyxl.utils import range_boundaries
        c1, r1, c2, r2 = range_boundaries(arr['ref'])
        from openpyxl.utils import get_column_letter
        for r in range(r1, r2 + 1):
            for c in range(c1, c2 + 1):
                coord = f'{get_column_letter(c)}{r}'
                v = results.get(arr['sheet'], {}).get(coord)
                if coord != first_cell and v is not None:
                    ws[coord] = v
    for name, target in (spec.get('names') or {}).items():
        dn = DefinedName(name=name, attr_text=target)
        if hasattr(wb.defined_names, 'append'):
            wb.defined_names.append(dn)
        else:
            wb.defined_names[name] = dn
    it = spec.get('iterate')
    if it:
        wb.calculation.iterate = True
        wb.calculation.iterateCount = it.get('count', 100)
        wb.calculation.iterateDelta = it.get('delta', 0.001)
    if spec.get('active'):
        wb.active = wb.sheetnames.index(spec['active'])
    tmp = path + '.tmp.xlsx'
    wb.save(tmp)

    sheet_files = {name: f'xl/worksheets/sheet{i}.xml'
                   for i, name in enumerate(spec['sheets'], start=1)}
    with zipfile.ZipFile(tmp) as zin, \
            zipfile.ZipFile(path, 'w', zipfile.ZIP_DEFLATED) as zout:
        for item in zin.infolist():
            data = zin.read(item.filename)
            for name, fname in sheet_files.items():
                if item.filename == fname and results.get(name):
                    data = _patch_sheet(data.decode('utf8'),
                                        results[name]).encode('utf8')
            zout.writestr(item, data)
    os.unlink(tmp)


_CELL_RE = re.compile(
    r'<c r="(?P<r>[A-Z]+[0-9]+)"(?P<attrs>[^>]*)>(?P<f><f[^>]*>.*?</f>|<f[^>]*/>)'
    r'(?P<v><v\s*/>|<v></v>)?</c>', re.S)


def _patch_sheet(xml, results):
    def repl(m):
        coord = m.group('r')
        if coord not in results or results[coord] is None:
            return m.group(0)
        t, text = _v_xml(results[coord])
        attrs = re.sub(r'\st="[^"]*"', '', m.group('attrs'))
        if t:
            attrs += f' t="{t}"'
        return (f'<c r="{coord}"{attrs}>{m.group("f")}'
                f'<v>{xml_escape(text)}</v></c>')
    xml = _CELL_RE.sub(repl, xml)

    # the other members of an array formula were written by openpyxl, which
    # keeps 15-16 significant digits of a float: give them all 17, as the
    # patched cells have
    def member_number(m):
        v = results.get(m.group('r'))
        if isinstance(v, float) and not isinstance(v, bool) and \
                repr(v) != m.group('v'):
            return (f'<c r="{m.group("r")}"{m.group("attrs")}>'
                    f'<v>{repr(v)}</v></c>')
        return m.group(0)
    xml = re.sub(r'<c r="(?P<r>[A-Z]+[0-9]+)"(?P<attrs>[^>]*)>'
                 r'<v>(?P<v>[-0-9.eE+]+)</v></c>', member_number, xml)

    # members of an array formula whose stored result is an empty text:
    # openpyxl writes <c t="inlineStr"/>, Excel writes a formula string
    def empty_member(m):
        if results.get(m.group('r')) != '':
            return m.group(0)
        return f'<c r="{m.group("r")}"{m.group("attrs")} t="str"><v></v></c>'
    return re.sub(r'<c r="(?P<r>[A-Z]+[0-9]+)"(?P<attrs>[^>]*?) '
                  r't="inlineStr"\s*/>', empty_member, xml)
