"""Obtaining a compiled model of a spec in every configuration, and the
history interpreter shared by C01 / C03 / C06 / C08."""

import os

from vlib import wbspec
from vlib.xl import (TempDir, compile_spec, exc_key, klass, same,
                     write_xlsx_with_results)

CONFIGS = ['mem', 'xlsx', 'yml', 'json', 'pkl']


def normalise_for_file(spec):
    """xlsx can not hold an empty-string constant: store blank instead"""
    sheets = {n: {c: (None if v == '' else v) for c, v in cells.items()}
              for n, cells in spec['sheets'].items()}
    out = dict(spec)
    out['sheets'] = sheets
    return out


def results_by_sheet(values):
    out = {}
    for addr, v in values.items():
        if isinstance(v, tuple):
            continue
        sheet, coord = addr.rsplit('!', 1)
        out.setdefault(sheet, {})[coord] = v
    return out


def build_model(spec, config, tmpdir, cycles=None, plugins=None):
    """-> compiled model for `spec` obtained the `config` way"""
    from pycel.excelcompiler import ExcelCompiler
    if config == 'mem':
        return compile_spec(wbspec.build_spec(spec), cycles=cycles,
                            plugins=plugins)
    if config == 'xlsx':
        values = wbspec.fresh_values(spec)
        path = os.path.join(tmpdir, 'book.xlsx')
        write_xlsx_with_results(wbspec.build_spec(spec),
                                results_by_sheet(values), path)
        return ExcelCompiler(filename=path, cycles=cycles, plugins=plugins)
    # serialized: compile, bring every cell into the model, save, load
    model = compile_spec(wbspec.build_spec(spec), cycles=cycles,
                         plugins=plugins,
                         filename=os.path.join(tmpdir, 'book'))
    for addr in wbspec.all_cells(spec):
        try:
            model.evaluate(addr)
        except Exception:
            pass
    target = os.path.join(tmpdir, 'saved-model')
    model.to_file(target, file_types=(config,))
    return ExcelCompiler.from_file(f'{target}.{config}', plugins=plugins)


ALIAS = {0: False, 1: True, '': None}


def alias_of(v):
    """value that python's == / truthiness confuses with v"""
    if v is None:
        return ''
    if isinstance(v, bool):
        return int(v)
    if isinstance(v, (int, float)) and v in (0, 1):
        return bool(v)
    if v == '':
        return None
    if isinstance(v, str):
        # what Excel's own comparison confuses with v: the other letter case
        if v.swapcase() != v:
            return v.swapcase()
        try:
            return float(v) if '.' in v else int(v)
        except ValueError:
            return None
    if isinstance(v, (int, float)):
        return str(v)
    return None


def vclass(v):
    if v is None:
        return 'blank'
    if isinstance(v, bool):
        return str(v).upper()
    if isinstance(v, (int, float)) and v in (0, 1):
        return str(int(v))
    if v == '':
        return 'empty-text'
    return klass(v)


def feature_of(spec, addr):
    """coarse description of what the formula in `addr` reads"""
    sheet, coord = addr.rsplit('!', 1)
    f = spec['sheets'].get(sheet, {}).get(coord)
    for arr in spec.get('arrays', ()):
        if arr['sheet'] == sheet:
            first, last = arr['ref'].split(':')
            if first[0] <= coord[0] <= last[0] and \
                    int(first[1:]) <= int(coord[1:]) <= int(last[1:]):
                return 'array-member'
    if not isinstance(f, str):
        return 'constant'
    body = f.upper()
    if any(u in body for u in ('!A:A', '!B:B', '!1:1', '!A:B', '!2:3')):
        return 'unbounded'
    if any(n in f for n in (spec.get('names') or {})):
        return 'name'
    if ' B1:B' in f or ':B1:' in f:
        return 'intersection-or-multicolon'
    if ':' in f:
        return 'range'
    return 'plain'


def same_value(a, b):
    if isinstance(a, tuple) and a and a[0] == 'raises':
        return isinstance(b, tuple) and b and b[0] == 'raises'
    if isinstance(b, tuple) and b and b[0] == 'raises':
        return False
    return same(a, b)


def safe_eval(model, addr):
    try:
        return model.evaluate(addr)
    except Exception as exc:
        return ('raises', exc_key(exc))
