"""C03 - persisted models are observationally equivalent to the model that
was saved.

Oracles: round trip (every saved cell: loaded value == original value),
differential replay of a post-load history on the original and the loaded
model, byte-identity of a second save, content-identity of a save of the
loaded model, survival of cycles / filename / hash / extra_data; loading in
the same process, on a fresh thread and in a brand-new process."""

import itertools
import json
import math
import os
import subprocess
import sys
import threading

from hypothesis import strategies as st

from vlib import hyp, models, wbspec
from vlib.xl import TempDir, compile_spec, exc_key, klass

ID = 'C03'
LEVEL = 'exploration'
TECHNIQUE = ('model-based round-trip / differential testing: Hypothesis-'
             'generated workbooks with serialization-hostile constants x '
             'format x iterative flag x extra_data x pre-save and post-load '
             'histories; original vs loaded model compared step by step; '
             'loads repeated on a fresh thread and in a fresh process'
             '; enumerated save sequences (all triples of save kinds, write between / write back), source-hash and error-valued-range-member scenarios, plugin functions')
LEVEL_TEXT = ('Exploration over generated workbooks whose constants are '
              'biased to values that text formats mangle (YAML/JSON look-'
              'alikes, extreme floats, unicode line breaks, long lines), '
              'three formats, iterative on/off, and histories on both sides '
              'of the save.')
LEVEL_NOTE = ('The original in-memory model is the reference.  Control '
              'characters that openpyxl refuses in a workbook are not '
              'generated.  Byte-identity is asserted for the second save of '
              'an unchanged model; a save of the *loaded* model is compared '
              'after parsing (cells, code, constants, settings).')
RULE = ('case = (workbook spec with hostile constants, format in {yml, '
        'json, pkl}, cycles flag, extra_data, pre-save history, post-load '
        'history, loader in {same thread, fresh thread}); plus batches '
        'loaded in a fresh process; non-trivial = the model has a formula '
        'and a hostile constant and the post-load history contains a write '
        'that changes a formula value; distinct = distinct case')
ASSUMPTIONS = ['to_file targets carry an explicit extension and a neutral '
               'stem (the API treats any name merely *ending* in yml/json/'
               'pkl as carrying that extension)']
MIN_NONTRIVIAL = {'quick': 250, 'thorough': 5000}

HOSTILE_TEXT = [
    'yes', 'no', 'null', '~', 'true', 'True', 'FALSE', '1e3', '0x1F',
    '1_000', '2001-01-01', '- a', 'a: b', '{a: 1}', '[1]', '#c', '&x', '*x',
    '!tag', '|', '>', '"q"', "'q'", 'a\nb', ' lead', 'trail ', 'x ' * 80,
    'a\tb', '﻿bom', "it's", 'a\\b', '\\n', ' ', '%x', '@x', '`x',
    'a #b', 'a:b', '1.0', '.5', '+1', '-', '?', ': x', '0o17', '1:30', 'NaN',
    '.inf', 'a\r\nb', '\r', '---', '...', '<<', 'é', '12:30:45', '1e-7',
    'long ' + 'word' * 40, ' ', ' ', 'a b', 'Ω≈ç√', '日本語',
    '#N/A', '#DIV/0!', '{"a": 1}', 'a,b', 'a;b', '0', '00012', '-0',
    # runs of blanks where a writer would fold a long line
    'w' * 118 + '  ' + 'z' * 20, 'a  b' * 50, 'x' * 100 + ' ' * 40 + 'y',
    'p   q ' * 30, "'lead", "''", '@a', 'a' * 300,
    # ... also far out, where a "generous" line width would still fold
    'w' * 8185 + '   ' + 'z' * 30, 'q  r ' * 2500, 'x' * 70000 + '  y  z',
]
HOSTILE_NUM = [1e-7, 1e22, -0.0, 5e-324, 2 ** 53 + 1, 0.1 + 0.2, 1e100,
               123456789012345678, 1.5, -3, 1e-320, 1.7976931348623157e308,
               0.30000000000000004, 1e15, 1e16, 123456.789e3]
# numpy-typed writes stay below 2**53: beyond it python compares int and float
# exactly while numpy converts the int to a double first, so a numpy-typed
# original and its python-typed copy legitimately differ (pycel keeps integral
# values as python ints, e.g. 1e22+1) - that is numpy's comparison, not
# persistence
NUMPY_NUM = [v for v in HOSTILE_NUM if abs(v) < 2 ** 53]
# known open findings: exercised in dedicated cases with their own class key
OPEN_TEXT = {'nel': 'a\x85b', 'nonbmp': 'smile \U0001F600', 'eq': '=A1+1'}
EXTRA = [None, {}, {'note': 'x'}, {'note': 'x', 'k': [1, 2, {'z': None}]},
         {'b': 1, 'a': 2, 'cycles-note': True}, {'zz': 'last', 'aa': 'first'}]
SET_VALUES = wbspec.SET_VALUES + HOSTILE_TEXT[:20] + HOSTILE_NUM[:8]


def exact(a, b):
    """same Excel value; floats must round-trip exactly"""
    if not models.same_value(a, b):
        return False
    if isinstance(a, float) and isinstance(b, (int, float)) and \
            not isinstance(b, bool):
        return repr(float(a)) == repr(float(b))
    return True


def same_result(a, b, loose=False):
    """what a formula gives in the original and in the loaded model: the same
    cells hold the same builtin values and run the same code, so the results
    are equal to the last bit.  Loose (tolerance of models.same): an iterative
    model stops within its tolerance of the fixed point, from wherever the
    earlier passes left it; and numpy.float64 written by the user before the
    save stays numpy.float64 in the original (the suite pins that) while the
    file holds the number - python's sum() adds the two kinds differently"""
    if not models.same_value(a, b):
        return False
    if loose:
        return True
    if isinstance(a, (tuple, list)):
        if a and a[0] == 'raises':
            return True
        return all(same_result(x, y) for x, y in zip(a, b))
    if klass(a) == 'number':
        return a == b
    return True


def steps_strategy(max_size=10):
    idx = st.integers(0, 40)
    value = st.sampled_from(SET_VALUES)
    return st.lists(st.one_of(
        st.tuples(st.just('set'), idx, value),
        st.tuples(st.just('set'), idx, st.sampled_from(wbspec.SET_VALUES)),
        st.tuples(st.just('setnp'), idx, st.sampled_from(NUMPY_NUM)),
        st.tuples(st.just('eval'), idx),
        st.tuples(st.just('eval'), idx),
        st.tuples(st.just('evalrange'), idx)), max_size=max_size)


def case_strategy():
    hostile = st.lists(st.tuples(
        st.integers(0, 11),
        st.one_of(st.sampled_from(HOSTILE_TEXT), st.sampled_from(HOSTILE_NUM),
                  st.sampled_from(HOSTILE_TEXT))), min_size=1, max_size=5)
    return st.tuples(
        wbspec.specs(max_formulas=8), hostile,
        st.sampled_from(['yml', 'json', 'pkl']), st.booleans(),
        st.sampled_from(EXTRA), steps_strategy(6), steps_strategy(10),
        st.sampled_from(['same', 'same', 'thread']))


def inject(spec, hostile):
    """put hostile constants into input cells of the main sheet"""
    ins = [a for a in spec['inputs'] if a.startswith(wbspec.SHEET + '!')]
    values = {}
    for i, v in hostile:
        values[ins[i % len(ins)]] = v
    return wbspec.with_inputs(spec, values)


def apply_step(model, spec, step, inputs_written=None):
    """-> ('obs', addr, value) or None"""
    ins, forms, ranges = spec['inputs'], spec['formulas'], spec['ranges']
    if step[0] in ('set', 'setnp'):
        addr = ins[step[1] % len(ins)]
        if addr not in model.cell_map:
            models.safe_eval(model, addr)
        value = step[2]
        if step[0] == 'setnp':
            # users feed numpy scalars
            import numpy as np
            if float(value).is_integer() and step[1] % 2:
                value = np.int64(int(value))     # FACTDOUBLE, COUNT-like
            elif step[1] % 5 == 0:
                value = np.bool_(value > 0)      # numpy comparison result
            else:
                value = np.float64(value)
        try:
            model.set_value(addr, value)
        except Exception as exc:
            return ('obs', 'set ' + addr, ('raises', exc_key(exc)))
        return None
    if step[0] == 'eval':
        addr = forms[step[1] % len(forms)]
        return ('obs', addr, models.safe_eval(model, addr))
    if step[0] == 'evalrange' and ranges:
        addr = ranges[step[1] % len(ranges)]
        return ('obs', addr, models.safe_eval(model, addr))
    return None


def parse_text_file(path):
    from ruamel.yaml import YAML
    with open(path) as f:
        data = YAML().load(f)

    def plain(o):
        if isinstance(o, dict):
            return {str(k): plain(v) for k, v in o.items()}
        if isinstance(o, (list, tuple)):
            return [plain(v) for v in o]
        if isinstance(o, bool) or o is None:
            return o
        if isinstance(o, int):
            return int(o)
        if isinstance(o, float):
            return float(o)
        return str(o)
    return plain(data)


def run_on_thread(fn):
    box = {}

    def target():
        try:
            box['result'] = fn()
        except BaseException as exc:   # noqa
            box['exc'] = exc
    t = threading.Thread(target=target)
    t.start()
    t.join()
    if 'exc' in box:
        raise box['exc']
    return box['result']


def text_class(v):
    if isinstance(v, str):
        if v.startswith('='):
            return 'text-leading-equals'
        if '\x85' in v:
            return 'text-nel'
        if any(ord(c) > 0xffff for c in v):
            return 'text-non-bmp'
        if '\n' in v or '\r' in v:
            return 'text-multiline'
        if v != v.strip():
            return 'text-padded'
        return 'text'
    if isinstance(v, float):
        return 'float'
    return klass(v)


def with_plugin_call(spec):
    """every third workbook (decided by its content) gets one formula
    wrapped in a plugin function; all models are compiled and loaded with
    the plugin module"""
    text = repr(spec['sheets'])
    if len(text) % 3 or 'VCOUNT' in text:
        return spec
    plain = [a for a in spec['formulas']
             if isinstance(spec['sheets'][a.rsplit('!', 1)[0]].get(
                 a.rsplit('!', 1)[1]), str)]
    if not plain:
        return spec
    sheet, coord = plain[len(text) % len(plain)].rsplit('!', 1)
    out = dict(spec)
    out['sheets'] = {n: dict(c) for n, c in spec['sheets'].items()}
    out['sheets'][sheet][coord] = \
        '=VCOUNT(9,' + spec['sheets'][sheet][coord][1:] + ')'
    return out


PLUGINS = 'vlib.plugin'


def check_case(rec, spec, hostile, fmt, cycles, extra, pre, post, loader,
               tmp=None, defer=None):
    from pycel.excelcompiler import ExcelCompiler
    spec = with_plugin_call(inject(spec, hostile))
    case = dict(spec=spec, hostile=[], fmt=fmt, cycles=cycles, extra=extra,
                pre=[list(s) for s in pre], post=[list(s) for s in post],
                loader=loader)
    own_tmp = None
    if tmp is None:
        own_tmp = TempDir()
        tmp = own_tmp.__enter__()
    state = dict(changed=False, writes=0)
    failure = []
    loose = bool(cycles) or any(step[0] == 'setnp' for step in pre)

    def fail(key, msg):
        if not failure:
            failure.append((key, msg))

    try:
        with rec.watch(f'hang:{fmt}', case, limit=120):
            # -- original model, pre-save history -----------------------------
            original = compile_spec(
                wbspec.build_spec(spec), cycles=cycles or None,
                filename=os.path.join(tmp, 'book'), plugins=PLUGINS)
            for addr in wbspec.all_cells(spec):
                models.safe_eval(original, addr)
            for step in pre:
                apply_step(original, spec, step)
            if extra is not None:
                original.extra_data = json.loads(json.dumps(extra))
            saved_addrs = [a for a, c in original.cell_map.items()
                           if ':' not in a]
            before = {a: models.safe_eval(original, a) for a in saved_addrs}
            stem = os.path.join(tmp, 'saved-model')
            path = f'{stem}.{fmt}'
            # -- save, save again ---------------------------------------------
            original.to_file(stem, file_types=(fmt,))
            if fmt != 'pkl':
                with open(path, 'rb') as f:
                    first_bytes = f.read()
                original.to_file(stem, file_types=(fmt,))
                with open(path, 'rb') as f:
                    second_bytes = f.read()
                if first_bytes != second_bytes:
                    fail(f'save-not-idempotent:{fmt}:' +
                         ('extra-data' if extra else 'plain'),
                         f'second to_file of an unchanged model changed the '
                         f'{fmt} file (extra_data={extra})')
            after_save = {a: models.safe_eval(original, a)
                          for a in saved_addrs}
            for a in saved_addrs:
                if not exact(before[a], after_save[a]):
                    fail(f'save-changes-model:{fmt}',
                         f'{a} was {before[a]!r} before to_file and '
                         f'{after_save[a]!r} after')
            if defer is not None and not failure:
                # fresh-process mode: comparison happens in the driver
                expected = []
                for step in post:
                    obs = apply_step(original, spec, step)
                    expected.append(obs)
                defer.append(dict(
                    path=path, spec=spec, post=[list(s) for s in post],
                    cells={a: before[a] for a in saved_addrs},
                    expected=expected, cycles=bool(cycles), loose=loose,
                    case=case))
                return None

            # -- load ------------------------------------------------------------
            def load():
                return ExcelCompiler.from_file(path, plugins=PLUGINS)
            try:
                loaded = run_on_thread(load) if loader == 'thread' else load()
            except Exception as exc:
                fail(f'load-raises:{fmt}:{loader}:{exc_key(exc)}' +
                     (':cycles' if cycles else ''),
                     f'from_file({fmt}) on {loader} raised {exc!r}'[:400])
                loaded = None
            if loaded is not None:
                def is_formula(a):
                    sheet, coord = a.rsplit('!', 1)
                    const = spec['sheets'].get(sheet, {}).get(coord)
                    return isinstance(const, str) and const.startswith('=')
                # constants first: a constant that changed explains a
                # formula that changed
                ordered = sorted(saved_addrs, key=is_formula)

                def compare_all():
                    for a in ordered:
                        got = models.safe_eval(loaded, a)
                        # constants must round-trip exactly, and formula
                        # results are equal to the last bit (python's sum()
                        # treats plain floats and float subclasses
                        # differently: a loaded model holding the loader's
                        # scalar subclasses showed as -4 against -8)
                        eq = (lambda x, y: same_result(x, y, loose)) \
                            if is_formula(a) else exact
                        if not eq(before[a], got):
                            sheet, coord = a.rsplit('!', 1)
                            const = spec['sheets'].get(sheet, {}).get(coord)
                            feature = text_class(before[a]) if not (
                                isinstance(const, str) and
                                const.startswith('=')) else 'formula'
                            fail(f'loaded-differs:{fmt}:{feature}' +
                                 (':cycles' if cycles else '') +
                                 (':thread' if loader == 'thread' else ''),
                                 f'{a}: original {before[a]!r}, loaded '
                                 f'{fmt} model gives {got!r}')
                            return
                # every other case goes straight to the post-load history: the
                # comparison of all cells would calculate everything first and
                # so repair what a loader left half-built
                history_first = len(post) % 2 == 1 and loader != 'thread'
                if history_first:
                    rec.label('history-before-first-comparison')
                elif loader == 'thread':
                    try:
                        run_on_thread(compare_all)
                    except Exception as exc:
                        fail(f'evaluate-raises:{fmt}:thread:{exc_key(exc)}',
                             f'evaluate on a fresh thread raised {exc!r}'[:300])
                else:
                    compare_all()
                # settings survive
                if bool(loaded.cycles) != bool(original.cycles) or (
                        original.cycles and dict(loaded.cycles) !=
                        dict(original.cycles)):
                    fail(f'settings:cycles:{fmt}',
                         f'cycles {original.cycles!r} loaded as '
                         f'{loaded.cycles!r}')
                if loaded.filename != original.filename:
                    fail(f'settings:filename:{fmt}',
                         f'{original.filename!r} -> {loaded.filename!r}')
                if extra:
                    le = loaded.extra_data or {}
                    for k, v in extra.items():
                        if k not in le or json.loads(json.dumps(
                                le[k], default=list)) != v:
                            fail(f'settings:extra_data:{fmt}',
                                 f'extra_data[{k!r}] = {v!r} loaded as '
                                 f'{le.get(k, "<missing>")!r}')
                if loaded.hash_matches != original.hash_matches:
                    fail(f'settings:hash:{fmt}',
                         f'hash_matches {original.hash_matches} -> '
                         f'{loaded.hash_matches}')
                # saving the loaded model reproduces the content
                if fmt != 'pkl' and not failure:
                    stem2 = os.path.join(tmp, 'resaved-model')
                    try:
                        loaded.to_file(stem2, file_types=(fmt,))
                        a, b = parse_text_file(path), parse_text_file(
                            f'{stem2}.{fmt}')
                        if a != b:
                            diff = [k for k in set(a) | set(b)
                                    if a.get(k) != b.get(k)]
                            fail(f'resave-differs:{fmt}:{sorted(diff)[0]}',
                                 f'to_file of the loaded model differs in '
                                 f'{sorted(diff)}')
                        else:
                            with open(f'{stem2}.{fmt}', 'rb') as f:
                                if f.read() != first_bytes:
                                    rec.label('resave:bytes-differ-content-'
                                              'equal')
                    except Exception as exc:
                        fail(f'resave-raises:{fmt}:{exc_key(exc)}',
                             f'to_file of the loaded model raised {exc!r}')
                # -- post-load history on both ---------------------------------
                if not failure:
                    last = {}
                    for step in post:
                        o1 = apply_step(original, spec, step)
                        o2 = apply_step(loaded, spec, step)
                        if step[0] in ('set', 'setnp'):
                            state['writes'] += 1
                        if o1 is None and o2 is None:
                            continue
                        if o1 is None or o2 is None or not same_result(
                                o1[2], o2[2], loose):
                            vcls = text_class(step[2]) if step[0] == 'set' \
                                else 'observe'
                            fail(f'history-differs:{fmt}:{vcls}' +
                                 (':cycles' if cycles else ''),
                                 f'step {step}: original {o1!r}, loaded '
                                 f'{o2!r}')
                            break
                        if o1[1] in last and not models.same_value(
                                last[o1[1]], o1[2]):
                            state['changed'] = True
                        last[o1[1]] = o1[2]
                    # final sweep: every formula cell on both models
                    if not failure:
                        for a in spec['formulas']:
                            v1 = models.safe_eval(original, a)
                            v2 = models.safe_eval(loaded, a)
                            if not same_result(v1, v2, loose):
                                fail(f'history-differs:{fmt}:final' +
                                     (':cycles' if cycles else ''),
                                     f'after the post-load history {a} is '
                                     f'{v1!r} in the original and {v2!r} in '
                                     f'the loaded model')
                                break
                            if a in before and not models.same_value(
                                    before[a], v1):
                                state['changed'] = True
    except Exception as exc:
        fail(f'raises:{fmt}:{exc_key(exc)}' + (':cycles' if cycles else ''),
             f'save/load sequence raised {exc!r}'[:400])
    finally:
        if own_tmp is not None:
            own_tmp.__exit__(None, None, None)
    has_hostile = bool(hostile)
    rec.case(key=(repr(spec['sheets']), fmt, cycles, repr(extra), repr(pre),
                  repr(post), loader),
             nontrivial=has_hostile and state['changed'],
             labels=(f'fmt:{fmt}', f'loader:{loader}',
                     'cycles' if cycles else 'plain',
                     'extra' if extra else 'noextra'),
             sample=dict(fmt=fmt, cycles=cycles, extra=extra, loader=loader,
                         hostile=[list(h) for h in hostile],
                         pre=[list(s) for s in pre],
                         post=[list(s) for s in post],
                         sheets=spec['sheets']))
    if failure:
        rec.fail(failure[0][0], case, failure[0][1])
        return failure[0]
    return None


# -- sequences of saves with different file types ------------------------------

SAVE_TYPES = [('yml',), ('json',), ('pkl',), ('pkl', 'yml'), ('pkl', 'json'),
              ('yml',), ('pkl', 'yml')]


def check_save_sequence(rec, spec, steps):
    """steps: ('save', k) | ('set', idx, value); after every save each file
    it was asked to write must load to the model as it is now"""
    from pycel.excelcompiler import ExcelCompiler
    case = dict(kind='save-sequence', spec=spec,
                steps=[list(s) for s in steps])
    failure = []
    saves = writes_between = 0
    interesting = False
    with TempDir() as tmp:
        try:
            model = compile_spec(wbspec.build_spec(spec),
                                 filename=os.path.join(tmp, 'book'))
            for a in wbspec.all_cells(spec):
                models.safe_eval(model, a)
            stem = os.path.join(tmp, 'saved-model')
            history = []
            snapshots = []
            for step in steps:
                if step[0] == 'set':
                    apply_step(model, spec, step)
                    writes_between += 1
                    continue
                types = SAVE_TYPES[step[1] % len(SAVE_TYPES)]
                history.append(types)
                # the content is back to what an earlier save wrote, with a
                # different content saved in between (open finding
                # C03-stale-pickle-content-reverted)
                snap = repr([models.safe_eval(model, a)
                             for a in spec['inputs']])
                reverted = snap in snapshots[:-1] and snap != snapshots[-1]
                snapshots.append(snap)
                if saves and writes_between:
                    interesting = True
                saves += 1
                model.to_file(stem, file_types=types)
                for ext in types:
                    loaded = ExcelCompiler.from_file(f'{stem}.{ext}')
                    for a in spec['formulas']:
                        v1 = models.safe_eval(model, a)
                        v2 = models.safe_eval(loaded, a)
                        if not same_result(v1, v2):
                            failure.append((
                                f'save-sequence:stale-{ext}' +
                                (':content-reverted' if reverted else ''),
                                f'after saves {history} the {ext} file gives '
                                f'{a} = {v2!r}, the model has {v1!r}'))
                            break
                    if failure:
                        break
                if failure:
                    break
        except Exception as exc:
            failure.append((f'save-sequence:raises:{exc_key(exc)}',
                            repr(exc)[:300]))
    rec.case(key=('save-seq', repr(spec['sheets']), repr(steps)),
             nontrivial=interesting, labels=('save-sequence',),
             sample=dict(steps=[list(s) for s in steps],
                         sheets=spec['sheets']))
    if failure:
        rec.fail(failure[0][0], case, failure[0][1])
        return failure[0]
    return None


# -- dedicated cases for the known open findings ------------------------------

def check_source_hash(rec):
    """the hash of the workbook the model was compiled from survives the
    trip, whatever happened to the workbook file in the meantime"""
    from openpyxl import Workbook
    from pycel.excelcompiler import ExcelCompiler

    def book(path, a1):
        wb = Workbook()
        ws = wb.active
        ws.title = 'S'
        ws['A1'], ws['B1'], ws['C1'] = a1, 2, '=A1+B1'
        wb.save(path)

    for fmt, state in itertools.product(
            ('yml', 'json', 'pkl'),
            ('intact', 'edited', 'removed', 'removed-then-resaved')):
        case = dict(kind='source-hash', fmt=fmt, state=state)
        rec.case(key=('source-hash', fmt, state), nontrivial=state != 'intact',
                 labels=('source-hash',), sample=case)
        try:
            with TempDir() as tmp:
                xlsx = os.path.join(tmp, 'book.xlsx')
                book(xlsx, 1)
                original = ExcelCompiler(filename=xlsx)
                original.evaluate('S!C1')
                digest = original._excel_file_md5_digest
                if state == 'edited':
                    book(xlsx, 100)
                elif state == 'removed':
                    os.remove(xlsx)
                stem = os.path.join(tmp, 'saved')
                original.to_file(stem, file_types=(fmt,))
                if state == 'removed-then-resaved':
                    os.remove(xlsx)
                loaded = ExcelCompiler.from_file(f'{stem}.{fmt}')
                if state == 'removed-then-resaved':
                    stem2 = os.path.join(tmp, 'resaved')
                    loaded.to_file(stem2, file_types=(fmt,))
                    if fmt != 'pkl' and parse_text_file(f'{stem}.{fmt}') != \
                            parse_text_file(f'{stem2}.{fmt}'):
                        rec.fail(f'source-hash:resave-differs:{fmt}', case,
                                 'saving the loaded model after the workbook '
                                 'was removed changed the file content')
                    loaded = ExcelCompiler.from_file(f'{stem2}.{fmt}')
                if loaded._excel_file_md5_digest != digest:
                    rec.fail(f'source-hash:lost:{fmt}:{state}', case,
                             f'compiled from a workbook with hash {digest}, '
                             f'workbook {state}: the loaded model carries '
                             f'{loaded._excel_file_md5_digest}')
                elif loaded.hash_matches != original.hash_matches:
                    rec.fail(f'source-hash:matches:{fmt}:{state}', case,
                             f'hash_matches {original.hash_matches} -> '
                             f'{loaded.hash_matches}')
        except Exception as exc:
            rec.fail(f'source-hash:raises:{exc_key(exc)}', case,
                     repr(exc)[:300])


def check_error_members(rec):
    """a formula cell that holds an error value when the model is saved, read
    through a range by other formulas; after loading, its precedent is written
    before / after the cell and its readers are first evaluated"""
    IN = wbspec.INSHEET
    variants = {
        'value': {'A1': 'a', 'B1': 2, 'C1': '=A1+B1'},
        'div0': {'A1': 0, 'B1': 2, 'C1': '=B1/A1'},
        'na': {'A1': 9, 'B1': 2, 'C1': '=MATCH(A1,B1:B2,0)', 'B2': 3},
        'ref-chain': {'A1': 0, 'B1': 2, 'C3': '=B1/A1', 'C1': '=C3+1'},
    }
    histories = [
        [('set', 0, 3)],
        [('set', 0, 3), ('eval', 1), ('eval', 2)],
        [('eval', 0), ('set', 0, 3), ('eval', 1)],
        [('eval', 1), ('set', 0, 3), ('eval', 1), ('set', 0, 2), ('eval', 2)],
        [('set', 1, 7), ('set', 0, 2), ('eval', 2), ('eval', 0)],
    ]
    for (name, cells), fmt, hist, cycles in itertools.product(
            variants.items(), ('yml', 'json', 'pkl'), histories,
            (False, True)):
        sheet = dict(cells, C2=5, D1='=SUM(C1:C2)', E1='=COUNT(C1:C2)',
                     F1='=IFERROR(C1,-1)+D1')
        spec = dict(sheets={IN: {'B3': 1}, 'S': sheet}, arrays=[], names={},
                    active='S', inputs=['S!A1', 'S!B1', 'S!C2'],
                    formulas=['S!C1', 'S!D1', 'S!E1', 'S!F1'],
                    ranges=['S!C1:C2'])
        check_case(rec, spec, [], fmt, cycles, None, [], hist, 'same')
    rec.exhaustive.append('error-valued range member x 4 error kinds x 3 '
                          'formats x 5 post-load histories x {plain, '
                          'iterative}')


def check_float_sums(rec):
    """aggregates over several float constants: the result depends on the
    last bit of every partial sum, and python's sum() only compensates for
    plain floats - a loaded model which holds anything else than the floats
    that were saved gives another last bit, which a difference of two close
    totals turns into another number altogether"""
    IN = wbspec.INSHEET
    columns = {
        'tenths': [0.1] * 10,
        'big-small': [1e16, 0, 0, 2, 0.5, 1e16, 3, -1e16, 1, 0.25],
        'thirds': [1 / 3, 2 / 3, 0.1, 0.2, 0.3, 0.7, 1e-9, 5, 0.6, 1.1],
        'mixed': [0.1, 1, 0.2, 2, 0.3, True, 'x', None, 0.7, 1e15],
    }
    histories = [
        [],
        [('set', 0, 0.3), ('eval', 0), ('eval', 1)],
        [('eval', 2), ('set', 3, 1e16), ('eval', 3), ('set', 3, 0.1),
         ('eval', 0), ('eval', 4)],
    ]
    for (name, col), fmt, hist, loader in itertools.product(
            columns.items(), ('yml', 'json', 'pkl'), histories,
            ('same', 'thread')):
        sheet = {f'A{i + 1}': v for i, v in enumerate(col) if v is not None}
        sheet.update(
            B1='=SUM(A1:A10)', B2='=SUM(A1:A10)-SUM(A1:A5)-SUM(A6:A10)',
            B3='=AVERAGE(A1:A10)*10-B1', B4='=SUM(A1:A5,A6,0.3)-A1*2',
            B5='=SUMPRODUCT(A1:A5,A6:A10)', B6='=A1+A2+A3-SUM(A1:A3)',
            B7='=SUMIF(A1:A10,">0")-B1', B8='=MAX(A1:A10)-MIN(A1:A10)')
        spec = dict(sheets={IN: {'B3': 1}, 'S': sheet}, arrays=[], names={},
                    active='S', inputs=[f'S!A{i + 1}' for i in range(10)],
                    formulas=[f'S!B{i + 1}' for i in range(8)],
                    ranges=['S!A1:A10', 'S!A1:A5', 'S!A6:A10', 'S!A1:A3'])
        check_case(rec, spec, [], fmt, False, None, [], hist, loader)
    rec.exhaustive.append('float aggregates x 4 columns of constants x 3 '
                          'formats x 3 post-load histories x {same thread, '
                          'fresh thread}, results equal to the last bit')


def check_open_findings(rec):
    from pycel.excelcompiler import ExcelCompiler
    for fmt in ('yml', 'json', 'pkl'):
        for name, text in OPEN_TEXT.items():
            case = dict(kind='open', fmt=fmt, name=name)
            rec.case(key=('open', fmt, name), nontrivial=True,
                     labels=('open-finding-probe',), sample=case)
            with TempDir() as tmp:
                m = compile_spec({'sheets': {'S': {'A1': 'x', 'B1': 2,
                                                   'C1': '=A1&B1'}}},
                                 filename=os.path.join(tmp, 'book'))
                m.evaluate('S!C1')
                m.set_value('S!A1', text)
                want = m.evaluate('S!C1')
                m.to_file(os.path.join(tmp, 'm'), file_types=(fmt,))
                try:
                    ld = ExcelCompiler.from_file(os.path.join(tmp, f'm.{fmt}'))
                    got = models.safe_eval(ld, 'S!C1')
                    gota = models.safe_eval(ld, 'S!A1')
                except Exception as exc:
                    got = gota = ('raises', exc_key(exc))
                if not exact(want, got) or not exact(text, gota):
                    rec.fail(f'loaded-differs:{fmt}:{text_class(text)}', case,
                             f'constant {text!r} saved as {fmt}: loaded model '
                             f'gives A1={gota!r}, C1={got!r} (original '
                             f'{want!r})')


# -- fresh process ------------------------------------------------------------

DRIVER = r'''
import json, sys, logging
sys.path.insert(0, sys.argv[2])
logging.getLogger('pycel').setLevel(100)
from pycel.excelcompiler import ExcelCompiler
from vlib import models
from props import c03
jobs = json.load(open(sys.argv[1]))
out = []
for job in jobs:
    res = dict(cells={}, obs=[], error=None)
    try:
        m = ExcelCompiler.from_file(job['path'], plugins='vlib.plugin')
        for a in job['cells']:
            res['cells'][a] = models.safe_eval(m, a)
        for step in job['post']:
            res['obs'].append(c03.apply_step(m, job['spec'], tuple(step)))
    except Exception as exc:
        res['error'] = repr(exc)[:300]
    out.append(res)
json.dump(out, open(sys.argv[1] + '.out', 'w'), default=lambda o: repr(o))
'''


def close_obs(a, b):
    """json-normalised observations equal up to float noise"""
    if isinstance(a, list) and isinstance(b, list):
        return len(a) == len(b) and all(close_obs(x, y) for x, y in zip(a, b))
    if isinstance(a, (int, float)) and isinstance(b, (int, float)) and \
            not isinstance(a, bool) and not isinstance(b, bool):
        return math.isclose(a, b, rel_tol=1e-9, abs_tol=1e-12)
    return a == b


def run_fresh_process(rec, jobs, tmp):
    from vlib.runner import ROOT, HarnessError, jdump
    job_file = os.path.join(tmp, 'jobs.json')
    with open(job_file, 'w') as f:
        f.write(jdump([dict(path=j['path'], spec=j['spec'], post=j['post'],
                            cells=list(j['cells'])) for j in jobs]))
    driver = os.path.join(tmp, 'driver.py')
    with open(driver, 'w') as f:
        f.write(DRIVER)
    proc = subprocess.run([sys.executable, driver, job_file, ROOT],
                          capture_output=True, text=True, timeout=600)
    if proc.returncode != 0 or not os.path.exists(job_file + '.out'):
        raise HarnessError(f'fresh-process driver failed: {proc.stderr[-600:]}')
    with open(job_file + '.out') as f:
        results = json.load(f)

    def norm(v):
        return json.loads(jdump(v))
    for job, res in zip(jobs, results):
        fmt = job['path'].rsplit('.', 1)[1]
        cyc = ':cycles' if job['cycles'] else ''
        if res['error']:
            rec.fail(f'fresh-process:load-raises:{fmt}{cyc}', job['case'],
                     f'brand-new process: {res["error"]}')
            continue
        bad = None
        for a, want in job['cells'].items():
            got = res['cells'].get(a)
            if norm(want) != got and not (
                    job['loose'] and
                    klass(want) == 'number' and klass(got) == 'number' and
                    math.isclose(want, got, rel_tol=1e-9, abs_tol=1e-12)):
                bad = (f'fresh-process:loaded-differs:{fmt}:'
                       f'{text_class(want)}{cyc}',
                       f'{a}: original {want!r}, fresh process {got!r}')
                break
        if not bad:
            for step, want, got in zip(job['post'], job['expected'],
                                       res['obs']):
                if norm(want) != got and not (
                        job['loose'] and close_obs(norm(want), got)):
                    bad = (f'fresh-process:history-differs:{fmt}{cyc}',
                           f'step {step}: original {want!r}, fresh process '
                           f'{got!r}')
                    break
        if bad:
            rec.fail(bad[0], job['case'], bad[1])


def shards(tier, seed):
    out = [dict(kind='open')]
    for k in range(14):
        out.append(dict(kind='hyp', seed=seed * 1000 + k,
                        n=100 if tier == 'quick' else 4000))
    for k in range(4):
        out.append(dict(kind='saves-enum', part=k, parts=4))
    out.append(dict(kind='saves', seed=seed * 1000 + 700,
                    n=60 if tier == 'quick' else 4000))
    out.append(dict(kind='fresh', seed=seed * 1000 + 500,
                    n=40 if tier == 'quick' else 1200))
    return out


def run_shard(shard, rec):
    if shard['kind'] == 'open':
        check_open_findings(rec)
        check_source_hash(rec)
        check_error_members(rec)
        check_float_sums(rec)
    elif shard['kind'] == 'saves-enum':
        import itertools
        spec = dict(sheets={'S': {'A1': 1, 'B1': 2, 'A2': '=A1+B1',
                                  'B2': '=SUM(A1:B1)*2'}, 'In': {'B3': 1}},
                    arrays=[], names={}, active='S',
                    inputs=['S!A1', 'S!B1'], formulas=['S!A2', 'S!B2'],
                    ranges=[])
        kinds = [('yml',), ('json',), ('pkl',), ('pkl', 'yml'),
                 ('pkl', 'json')]
        triples = list(itertools.product(range(5), repeat=3))
        for n, (a, b, c) in enumerate(triples):
            if n % shard['parts'] != shard['part']:
                continue
            idx = [SAVE_TYPES.index(kinds[i]) for i in (a, b, c)]
            for second_write in ('other', 'none', 'back'):
                # 'back': the third save writes the very content of the first
                steps = [('save', idx[0]), ('set', 0, 10 + n),
                         ('save', idx[1])] + \
                    {'other': [('set', 1, 20 + n)], 'none': [],
                     'back': [('set', 0, 1)]}[second_write] + \
                    [('save', idx[2])]
                check_save_sequence(rec, spec, steps)
        rec.exhaustive.append('all triples of save kinds with a write '
                              'between the saves (a new value, none, or back '
                              'to the first content)')
    elif shard['kind'] == 'saves':
        steps = st.lists(st.one_of(
            st.tuples(st.just('save'), st.integers(0, 6)),
            st.tuples(st.just('save'), st.integers(0, 6)),
            st.tuples(st.just('set'), st.integers(0, 40),
                      st.sampled_from(wbspec.SET_VALUES))),
            min_size=2, max_size=8)
        hyp.search(rec, st.tuples(wbspec.specs(max_formulas=6), steps),
                   lambda c: check_save_sequence(rec, c[0], c[1]),
                   shard['n'], shard['seed'])
    elif shard['kind'] == 'hyp':
        hyp.search(rec, case_strategy(),
                   lambda c: check_case(rec, *c), shard['n'], shard['seed'])
    else:
        with TempDir() as tmp:
            jobs = []
            counter = [0]

            def body(c):
                counter[0] += 1
                sub = os.path.join(tmp, f'case{counter[0]}')
                os.makedirs(sub)
                return check_case(rec, *c[:7], 'same', tmp=sub, defer=jobs)
            hyp.search(rec, case_strategy(), body, shard['n'], shard['seed'],
                       shrink=False)
            rec.label('fresh-process-jobs', len(jobs))
            if jobs:
                run_fresh_process(rec, jobs, tmp)


def replay(case, rec):
    if isinstance(case, dict) and case.get('kind') == 'source-hash':
        check_source_hash(rec)
        return
    if isinstance(case, dict) and case.get('kind') == 'open':
        check_open_findings(rec)
        return
    if isinstance(case, dict) and case.get('kind') == 'save-sequence':
        check_save_sequence(rec, case['spec'],
                            [tuple(s) for s in case['steps']])
        return
    if isinstance(case, list):
        if len(case) == 2:
            check_save_sequence(rec, case[0], [tuple(s) for s in case[1]])
        else:
            check_case(rec, *case)
        return
    fresh = []
    res = check_case(rec, case['spec'], [], case['fmt'], case['cycles'],
                     case['extra'], [tuple(s) for s in case['pre']],
                     [tuple(s) for s in case['post']], case['loader'])
    if res is None:
        # also through a brand-new process
        with TempDir() as tmp:
            check_case(rec, case['spec'], [], case['fmt'], case['cycles'],
                       case['extra'], [tuple(s) for s in case['pre']],
                       [tuple(s) for s in case['post']], 'same', tmp=tmp,
                       defer=fresh)
            if fresh:
                run_fresh_process(rec, fresh, tmp)
