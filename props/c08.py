"""C08 - trim_graph preserves the outputs as a function of the inputs.

Oracle: differential.  Reference = a fresh compile of the same workbook in
which the chosen inputs (constants, ranges of constants, or buried formula
cells, which become constants) carry the assigned values; the trimmed model
and the trimmed + saved + reloaded model must give the same outputs after
every assignment; nothing but cells the outputs need may survive the trim."""

import itertools
import os

from hypothesis import strategies as st

from vlib import hyp, models, wbspec
from vlib.xl import TempDir, compile_spec, exc_key, klass

ID = 'C08'
LEVEL = 'exploration'
TECHNIQUE = ('Hypothesis-generated workbooks x output sets x input sets '
             'drawn from the outputs\' ancestors (leaf, range, buried) x '
             'pre-trim history x assignment sequences; differential against '
             'a fresh untrimmed compile, repeated after a save/load round '
             'trip of the trimmed model'
             '; enumerated scenarios: 17 kinds of frozen value x {direct, yml, json, pkl}, unbounded reference + bounded twin in every pre-evaluation order; range inputs that are / are not read as a range')
LEVEL_TEXT = ('Exploration over generated workbooks; inputs are chosen from '
              'the real ancestor set of the outputs so that trims are '
              'meaningful, outputs are or are not evaluated before the trim, '
              'and the model comes from memory or from an xlsx file with '
              'stored results.')
LEVEL_NOTE = ('Trusts a fresh ExcelCompiler of the workbook with the inputs '
              'overwritten as the meaning of "what the untrimmed model '
              'returns as a function of the inputs" (a buried input is a '
              'constant there, as it is after the trim).')
RULE = ('case = (spec, config in {mem, xlsx}, outputs (1-3 formula cells or '
        'a range), inputs (1-3 ancestors: constants, a row range, buried '
        'formula cells), evaluate-before-trim flag, pre-trim writes to '
        'non-input constants, save format, assignment rounds); non-trivial '
        '= at least one precedent of an output is frozen (not downstream of '
        'any input) and at least one assignment changes an output; '
        'distinct = distinct case')
ASSUMPTIONS = ['inputs that are connected to no output raise ValueError '
               '(documented) and are exercised separately']
MIN_NONTRIVIAL = {'quick': 80, 'thorough': 2000}

VALUES = [0, 1, 2, 3, -1, 2.5, 10, 42, 7, -7.5, 100, 'a', '5', True, None]


def case_strategy():
    idx = st.integers(0, 60)
    return st.tuples(
        wbspec.specs(max_formulas=12),
        st.sampled_from(['mem', 'mem', 'xlsx']),
        st.lists(idx, min_size=1, max_size=3),            # outputs
        st.lists(idx, min_size=1, max_size=2),            # inputs
        st.booleans(),                                     # evaluate first
        st.lists(st.tuples(idx, st.sampled_from(VALUES)), max_size=3),  # pre
        st.sampled_from(['yml', 'json', 'pkl']),
        st.lists(st.lists(st.sampled_from(VALUES), min_size=4, max_size=4),
                 min_size=1, max_size=4))                  # assignment rounds


def is_formula(spec, addr):
    sheet, coord = addr.rsplit('!', 1)
    v = spec['sheets'].get(sheet, {}).get(coord)
    return isinstance(v, str) and v.startswith('=')


def check_case(rec, spec, config, out_idx, in_idx, eval_first, pre, fmt,
               rounds):
    import networkx as nx
    from pycel.excelcompiler import ExcelCompiler
    if config == 'xlsx':
        spec = models.normalise_for_file(spec)
    # array members can not be overwritten one by one: not used as inputs
    array_cells = {a for a in spec['formulas']
                   if models.feature_of(spec, a) == 'array-member'}
    forms = spec['formulas']
    outputs = []
    for i in out_idx:
        a = forms[i % len(forms)]
        if a not in outputs:
            outputs.append(a)
    case = dict(spec=spec, config=config, out_idx=list(out_idx),
                in_idx=list(in_idx), eval_first=eval_first,
                pre=[list(p) for p in pre], fmt=fmt,
                rounds=[list(r) for r in rounds])
    failure = []

    def fail(key, msg):
        if not failure:
            failure.append((key, msg))
    frozen_exists = changed = False
    with TempDir() as tmp:
        try:
            # ancestors of the outputs in an untrimmed, fully built model
            probe = compile_spec(wbspec.build_spec(spec))
            for a in outputs:
                models.safe_eval(probe, a)
            anc = set()
            for a in outputs:
                cell = probe.cell_map[a]
                if cell in probe.dep_graph:
                    anc |= {c.address.address
                            for c in nx.ancestors(probe.dep_graph, cell)}
            cand = sorted(a for a in anc if ':' not in a and
                          a not in outputs and a not in array_cells)
            if not cand:
                rec.label('excluded:outputs-have-no-ancestors')
                return None
            inputs = []
            for i in in_idx:
                a = cand[i % len(cand)]
                if a not in inputs:
                    inputs.append(a)
            # a buried input makes its own precedents irrelevant: inputs
            # upstream of another input are dropped (ambiguous otherwise)
            def upstream(a, b):
                ca, cb = probe.cell_map[a], probe.cell_map[b]
                return cb in probe.dep_graph and ca in nx.ancestors(
                    probe.dep_graph, cb)
            inputs = [a for a in inputs
                      if not any(a != b and upstream(a, b) and
                                 is_formula(spec, b) for b in inputs)]
            buried = [a for a in inputs if is_formula(spec, a)]
            # pre-trim writes go to constants that are not inputs
            consts = [a for a in spec['inputs'] if a not in inputs]
            current = {}
            pre_writes = []
            for i, v in pre:
                if consts:
                    a = consts[i % len(consts)]
                    current[a] = v
                    pre_writes.append((a, v))

            def reference(assign):
                vals = dict(current)
                vals.update(assign)
                return wbspec.fresh_values(wbspec.with_inputs(spec, vals),
                                           outputs)

            model = models.build_model(spec, config, tmp)
            for a, v in pre_writes:
                if a not in model.cell_map:
                    models.safe_eval(model, a)
                model.set_value(a, v)
            if eval_first:
                for a in outputs:
                    models.safe_eval(model, a)
            with rec.watch('hang:trim', case, limit=120):
                model.trim_graph(inputs, outputs)
            # frozen precedents exist?
            down = set()
            for a in inputs:
                cell = probe.cell_map[a]
                if cell in probe.dep_graph:
                    down |= {c.address.address for c in
                             nx.descendants(probe.dep_graph, cell)}
            frozen_exists = any(a not in down and a not in inputs and
                                is_formula(spec, a) for a in anc)
            # nothing but needed cells survives
            allowed = anc | set(outputs) | set(inputs)
            extra = [a for a in model.cell_map if a not in allowed]
            if extra:
                fail('trim-keeps-unneeded-cells',
                     f'after trim_graph({inputs}, {outputs}) the cell map '
                     f'still holds {sorted(extra)[:6]}')
            tag = ('buried' if buried else 'leaf') + \
                  (':unevaluated' if not eval_first else '') + f':{config}'

            def compare(m, assign, stage):
                nonlocal changed
                want = reference(assign)
                for a in outputs:
                    got = models.safe_eval(m, a)
                    if not models.same_value(got, want[a]):
                        fail(f'output-differs:{stage}:{tag}',
                             f'{stage}: output {a} = {got!r}, untrimmed '
                             f'model with inputs {assign} gives {want[a]!r} '
                             f'(inputs {inputs}, outputs {outputs}, '
                             f'pre-writes {pre_writes})')
                        return want
                return want
            base = compare(model, {}, 'trimmed')
            assign = {}
            loaded = None
            for rnd, vals in enumerate(rounds):
                if failure:
                    break
                for a, v in zip(inputs, vals):
                    if is_formula(spec, a) and v is None:
                        v = 0       # a buried input gets a real value
                    assign[a] = v
                    model.set_value(a, v)
                    if loaded is not None:
                        loaded.set_value(a, v)
                want = compare(model, assign, 'trimmed')
                if any(not models.same_value(want[a], base[a])
                       for a in outputs):
                    changed = True
                if loaded is not None and not failure:
                    compare(loaded, assign, f'reloaded-{fmt}')
                if rnd == 0 and not failure:
                    # save / load round trip of the trimmed model
                    stem = os.path.join(tmp, 'trimmed-model')
                    model.to_file(stem, file_types=(fmt,))
                    loaded = ExcelCompiler.from_file(f'{stem}.{fmt}')
                    compare(loaded, assign, f'reloaded-{fmt}')
        except Exception as exc:
            fail(f'raises:{exc_key(exc)}:{config}',
                 f'{exc!r}'[:400])
    rec.case(key=(repr(spec['sheets']), repr(spec['arrays']), config,
                  repr(out_idx), repr(in_idx), eval_first, repr(pre), fmt,
                  repr(rounds)),
             nontrivial=frozen_exists and changed,
             labels=(f'config:{config}',
                     'evaluated-first' if eval_first else 'unevaluated',
                     'frozen' if frozen_exists else 'nofrozen',
                     'changed' if changed else 'unchanged'),
             sample=dict(config=config, out_idx=list(out_idx),
                         in_idx=list(in_idx), eval_first=eval_first,
                         pre=[list(p) for p in pre], fmt=fmt,
                         rounds=[list(r) for r in rounds],
                         sheets=spec['sheets'], arrays=spec['arrays']))
    if failure:
        rec.fail(failure[0][0], case, failure[0][1])
        return failure[0]
    return None


def check_fixed(rec):
    """range inputs, an output that is also an input, unconnected input"""
    cells = {'A1': 1, 'B1': 2, 'C1': 3, 'D1': 4, 'A2': '=SUM(A1:D1)',
             'B2': '=A2*2', 'C2': '=B2+C1', 'D2': '=10+D1', 'A3': '=C2+D2',
             'B3': 99}
    spec = {'sheets': {'S': cells}}
    scenarios = [
        (['S!A1:D1'], ['S!A3'], [('S!A1:D1', [[5, 6, 7, 8]])]),
        (['S!A1', 'S!B2'], ['S!A3', 'S!B2'], [('S!A1', 9), ('S!B2', 50)]),
        (['S!A2'], ['S!A3'], [('S!A2', 100)]),
        # an input range that no formula reads as a range (its cells are
        # read one by one, and through a larger range)
        (['S!C1:D1'], ['S!A3'], [('S!C1:D1', [[30, 40]])]),
    ]
    for inputs, outputs, writes in scenarios:
        case = dict(kind='fixed', inputs=inputs, outputs=outputs)
        rec.case(key=('fixed', repr(inputs), repr(outputs)), nontrivial=True,
                 labels=('fixed',), sample=case)
        try:
            m = compile_spec(spec)
            ref = compile_spec(spec)
            m.trim_graph(inputs, outputs)
            for a in outputs:
                ref.evaluate(a)
            for addr, v in writes:
                m.set_value(addr, v)
                if ':' in addr:
                    ref.evaluate(addr)
                ref.set_value(addr, v)
                if addr == 'S!B2' or addr == 'S!A2':
                    continue
            for a in outputs:
                got, want = models.safe_eval(m, a), models.safe_eval(ref, a)
                if a in ('S!A3',) and any(w[0] in ('S!B2', 'S!A2')
                                          for w in writes):
                    # buried input: the reference keeps the formula, compare
                    # with the closed form instead
                    vals = dict(cells)
                    for addr, v in writes:
                        if ':' not in addr:
                            vals[addr.split('!')[1]] = v
                    want = models.safe_eval(
                        compile_spec({'sheets': {'S': vals}}), a)
                if not models.same_value(got, want):
                    rec.fail(f'fixed:output-differs:{"+".join(inputs)}', case,
                             f'trim({inputs},{outputs}) then {writes}: {a} = '
                             f'{got!r}, expected {want!r}')
        except Exception as exc:
            rec.fail(f'fixed:raises:{exc_key(exc)}', case, repr(exc)[:300])
    # an input no output depends on is an error
    case = dict(kind='fixed-unconnected')
    rec.case(key=('fixed', 'unconnected'), nontrivial=True,
             labels=('fixed',), sample=case)
    try:
        m = compile_spec(spec)
        m.evaluate('S!B3')
        m.evaluate('S!A3')
        try:
            m.trim_graph(['S!B3'], ['S!A3'])
            rec.fail('fixed:unconnected-input-accepted', case,
                     'trim_graph with an input no output depends on did not '
                     'raise ValueError')
        except ValueError:
            pass
    except Exception as exc:
        rec.fail(f'fixed:raises:{exc_key(exc)}', case, repr(exc)[:300])


FROZEN = [
    # formulas without an input among their precedents: frozen by the trim
    ("apostrophe", '="\'"&P1&"\'!R2"'), ("two-apostrophes", '="\'\'"&P1'),
    ("leading-space", '=" "&P1&" "'), ("hash", '="#"&P1'),
    ("quote", '=' + '"' * 4 + '&P1&' + '"' * 4), ("looks-numeric", '="00"&P2'),
    ("looks-logical", '="TRUE"&""'), ("looks-exponent", '="1e"&P2'),
    ("multi-line", '=P1&"\n"&P1'), ("long", '=' + '&"  "&'.join(['P1'] * 12)),
    ("empty", '=""'), ("integral-float", '=P2*1.0'), ("tiny", '=P2/1e9'),
    ("logical", '=P2>0'), ("error", '=P2/0'), ("na", '=NA()'),
    ("blank-ref", '=P3'),
]


def check_frozen(rec, name, formula, fmt):
    """a frozen cell keeps the value it had at trim time, also through a
    save/load round trip, whatever that value looks like"""
    cells = {'P1': 'North Region', 'P2': 12, 'A1': 1, 'B1': formula,
             'D1': '=B1&"|"&A1', 'E1': '=IFERROR(LEN(B1),-1)+A1',
             'F1': '=IF(ISNUMBER(B1),B1+A1,A1)'}
    spec = {'sheets': {'S': cells}}
    outputs = ['S!D1', 'S!E1', 'S!F1']
    case = dict(kind='frozen', name=name, formula=formula, fmt=fmt)
    rec.case(key=('frozen', name, fmt), nontrivial=True,
             labels=('frozen', f'fmt:{fmt}'), sample=case)
    try:
        with TempDir() as tmp:
            m = compile_spec(spec)
            m.trim_graph(['S!A1'], outputs)
            if fmt != 'direct':
                from pycel.excelcompiler import ExcelCompiler
                m.to_file(os.path.join(tmp, 'm'), file_types=(fmt,))
                m = ExcelCompiler.from_file(os.path.join(tmp, f'm.{fmt}'))
            for value in (1, 'z', 7.5):
                m.set_value('S!A1', value)
                vals = dict(cells)
                vals['A1'] = value
                ref = compile_spec({'sheets': {'S': vals}})
                for a in outputs:
                    got, want = models.safe_eval(m, a), models.safe_eval(ref, a)
                    if not models.same_value(got, want):
                        rec.fail(f'frozen:output-differs:{name}:' +
                                 ('loaded' if fmt != 'direct' else 'trimmed'),
                                 case,
                                 f'B1 {formula} frozen by trim_graph([A1], '
                                 f'{outputs}) ({fmt}), A1={value!r}: {a} = '
                                 f'{got!r}, expected {want!r}')
                        return
    except Exception as exc:
        rec.fail(f'frozen:raises:{exc_key(exc)}:{name}', case,
                 repr(exc)[:300])


def check_frozen_all(rec):
    for (name, formula), fmt in itertools.product(
            FROZEN, ('direct', 'yml', 'json', 'pkl')):
        check_frozen(rec, name, formula, fmt)
    rec.exhaustive.append(f'{len(FROZEN)} kinds of frozen value x {{direct, '
                          f'yml, json, pkl}}')


TWINS = [('A:A', 'A1:A3', 'S!A2'), ('B:B', 'B1:B3', 'S!B3'),
         ('1:1', 'A1:B1', 'S!B1'), ('A:B', 'A1:B3', 'S!B2'),
         ('2:3', 'A2:B3', 'S!A3')]


def check_twin(rec, pair, agg, pre, outputs, loaded):
    """an unbounded reference and the bounded range it is bound to, read by
    different formulas, in every order of first evaluation"""
    unb, twin, member = TWINS[pair]
    data = {'A1': 1, 'B1': 2, 'A2': 3, 'B2': 4.5, 'A3': 6, 'B3': 7}
    forms = {'A1': f'={agg}(S!{twin})', 'A2': f'={agg}(S!{unb})*2',
             'B1': '=A1+1', 'B2': '=A2+1'}
    spec = {'sheets': {'S': data, 'F': forms}}
    case = dict(kind='twin', pair=pair, agg=agg, pre=list(pre),
                outputs=list(outputs), loaded=loaded)
    rec.case(key=('twin', pair, agg, tuple(pre), tuple(outputs), loaded),
             nontrivial=True, labels=('twin', f'pre:{len(pre)}'), sample=case)
    try:
        with TempDir() as tmp:
            m = compile_spec(spec)
            for a in pre:
                m.evaluate(a)
            m.trim_graph([member], list(outputs))
            if loaded:
                from pycel.excelcompiler import ExcelCompiler
                path = os.path.join(tmp, 'm.yml')
                m.to_file(path)
                m = ExcelCompiler.from_file(path)
            for value in (10, -2):
                m.set_value(member, value)
                vals = dict(data)
                vals[member.split('!')[1]] = value
                ref = compile_spec({'sheets': {'S': vals, 'F': forms}})
                for a in outputs:
                    got, want = models.safe_eval(m, a), models.safe_eval(ref, a)
                    if not models.same_value(got, want):
                        rec.fail('twin:output-differs:' +
                                 ('loaded' if loaded else 'trimmed'), case,
                                 f'{forms}: evaluate {list(pre)}, trim('
                                 f'[{member}], {list(outputs)}), {member}='
                                 f'{value}: {a} = {got!r}, expected {want!r}')
                        return
    except Exception as exc:
        rec.fail(f'twin:raises:{exc_key(exc)}', case, repr(exc)[:300])


def check_twins(rec):
    pres = [(), ('F!B1',), ('F!B2',), ('F!B1', 'F!B2'), ('F!B2', 'F!B1')]
    outs = [('F!B1', 'F!B2'), ('F!B2', 'F!B1'), ('F!B2',), ('F!B1',)]
    for pair, agg, pre, outputs, loaded in itertools.product(
            range(len(TWINS)), ('SUM', 'MAX'), pres, outs, (False, True)):
        check_twin(rec, pair, agg, pre, outputs, loaded)
    rec.exhaustive.append('unbounded reference + its bounded twin: 5 forms x '
                          '2 aggregates x 5 pre-evaluation orders x 4 output '
                          'lists x {trimmed, trimmed+saved+loaded}')


def shards(tier, seed):
    out = [dict(kind='fixed'), dict(kind='twins')]
    for k in range(14):
        out.append(dict(kind='hyp', seed=seed * 1000 + k,
                        n=110 if tier == 'quick' else 5000))
    return out


def run_shard(shard, rec):
    if shard['kind'] == 'twins':
        check_frozen_all(rec)
        return check_twins(rec)
    if shard['kind'] == 'fixed':
        check_fixed(rec)
    else:
        hyp.search(rec, case_strategy(), lambda c: check_case(rec, *c),
                   shard['n'], shard['seed'])


def replay(case, rec):
    if isinstance(case, dict) and case.get('kind') == 'frozen':
        return check_frozen(rec, case['name'], case['formula'], case['fmt'])
    if isinstance(case, dict) and case.get('kind') == 'twin':
        return check_twin(rec, case['pair'], case['agg'], tuple(case['pre']),
                          tuple(case['outputs']), case['loaded'])
    if isinstance(case, dict) and case.get('kind', '').startswith('fixed'):
        check_fixed(rec)
        return
    if isinstance(case, list):
        check_case(rec, *case)
        return
    check_case(rec, case['spec'], case['config'], case['out_idx'],
               case['in_idx'], case['eval_first'],
               [tuple(p) for p in case['pre']], case['fmt'], case['rounds'])
