"""C18 - radix conversions are exact inverses on Excel's 10-digit
two's-complement range.  Oracle: independent two's-complement model."""

import itertools
import re

from hypothesis import strategies as st

from vlib import hyp
from vlib.xl import ERRSET, FastEnv, compile_spec, exc_key, klass

ID = 'C18'
LEVEL = 'exploration'
TECHNIQUE = ('exhaustive enumeration of the binary range x places and of '
             'short digit strings, boundary + Hypothesis-sampled octal/hex '
             'values and malformed strings, against a two\'s-complement '
             'reference model and round-trip/composition laws'
             '; range boundaries of every output base written in every input base; digit strings in cells after to_file/from_file; order-independence probe')
LEVEL_TEXT = ('Exploration: the binary domain (-512..511 x places) and all '
              'binary strings up to 11 digits are enumerated completely; '
              'octal/hex use all boundaries plus sampled values; malformed '
              'inputs insert one illegal character at every position.')
LEVEL_NOTE = ('Trusts the reference model in props/c18.py. Negative numbers '
              'combined with an explicit places argument, the empty string '
              'and surrounding blanks are checked for closure only.')
RULE = ('DEC2X(n[,places]) for every n of the binary range (exhaustive), '
        'boundary and sampled n of the octal/hex ranges and just outside '
        'them, places in 1..10; X2DEC / X2Y on every binary string of '
        'length <=11 and sampled octal/hex strings, as text and as numbers, '
        'plus strings with one illegal character inserted; non-trivial = '
        'negative value, value at a range boundary, explicit places, or a '
        'malformed string; distinct = distinct (function, arguments)')
ASSUMPTIONS = [
    'places is an integer in 1..10 (the quantifier of the property)',
    'DEC2X of a negative number with an explicit places argument may return '
    'either the 10-digit form (Excel ignores places) or #NUM!',
]
MIN_NONTRIVIAL = {'quick': 5000, 'thorough': 50000}

BASES = {'BIN': 2, 'OCT': 8, 'HEX': 16}
HALF = {2: 512, 8: 2 ** 29, 16: 2 ** 39}
DIGITS = {2: '01', 8: '01234567', 16: '0123456789ABCDEF'}
ILLEGAL = [' ', '+', '-', '_', '.', 'G', 'x', 'b', 'o', '٣', '\n']

CLOSURE = object()
ANYERR = object()


def to_base(n, base):
    if n == 0:
        return '0'
    s = ''
    while n:
        n, d = divmod(n, base)
        s = DIGITS[base][d] + s
    return s


def model_dec2(n, base, places=None):
    if n in ERRSET if isinstance(n, str) else False:
        return n
    half = HALF[base]
    if not (-half <= n < half):
        return '#NUM!'
    if n < 0:
        s = to_base(n + 2 * half, base)
        if places is not None:
            return ('either', s, '#NUM!')
        return s
    s = to_base(n, base)
    if places is None:
        return s
    if places < len(s):
        return '#NUM!'
    return s.zfill(places)


def model_2dec(s, base):
    """s is text"""
    if s == '':
        return CLOSURE
    if s.strip() != s and s.strip() and all(
            c in DIGITS[base] for c in s.strip().upper()):
        return CLOSURE          # surrounding blanks: unclear in Excel
    if not all(c in DIGITS[base] for c in s.upper()) or \
            any(not c.isascii() for c in s):
        return ANYERR
    if len(s) > 10:
        return '#NUM!'
    v = int(s, base)
    half = HALF[base]
    if v >= half:
        if len(s) < 10:
            return v            # can not happen: needs all 10 digits
        v -= 2 * half
    return v


def judge(exp, got):
    if klass(got).startswith('other') or got is None:
        return f'result {got!r} is not an Excel scalar'
    if exp is CLOSURE:
        return None
    if exp is ANYERR:
        return None if got in ('#NUM!', '#VALUE!') else \
            f'expected #NUM!/#VALUE!, got {got!r}'
    if isinstance(exp, tuple) and exp[0] == 'either':
        return None if got in exp[1:] else f'expected one of {exp[1:]}, got {got!r}'
    if isinstance(exp, str):
        return None if (isinstance(got, str) and got == exp) else \
            f'expected {exp!r}, got {got!r}'
    if isinstance(got, bool) or not isinstance(got, (int, float)) or got != exp:
        return f'expected {exp!r}, got {got!r}'
    return None


def str_class(s, base):
    if s == '':
        return 'empty'
    bad = [c for c in s if c.upper() not in DIGITS[base] or not c.isascii()]
    if bad:
        return 'illegal:' + repr(bad[0])
    if len(s) > 10:
        return 'len11'
    if len(s) == 10 and int(s, base) >= HALF[base]:
        return 'negative'
    return 'valid'


class Ctx:
    def __init__(self, rec, form='fast'):
        self.rec = rec
        self.form = form
        self.env = FastEnv()

    def ev(self, formula, cells):
        if self.form == 'fast':
            return self.env.eval(formula, cells)
        spec = {'sheets': {'S': dict(
            {k: v for k, v in cells.items() if v is not None}, Z1=formula)}}
        return compile_spec(spec).evaluate('S!Z1')

    def run(self, func, args, exp, cls, nontrivial):
        rec = self.rec
        formula = f'={func}(' + ','.join(
            'ABCD'[i] + '1' for i in range(len(args))) + ')'
        cells = {'ABCD'[i] + '1': a for i, a in enumerate(args)}
        case = dict(func=func, args=list(args), form=self.form)
        rec.case(key=(func, repr(args), self.form), nontrivial=nontrivial,
                 labels=(f'func:{func}', f'class:{cls.split(":")[0]}',
                         f'form:{self.form}'), sample=case)
        try:
            got = self.ev(formula, cells)
        except Exception as exc:
            rec.fail(f'{func}:raises:{exc_key(exc)}:{cls}', case,
                     f'{func}{tuple(args)!r} raised {exc!r}'[:400])
            return None
        bad = judge(exp, got)
        if bad:
            rec.fail(f'{func}:value:{cls}', case,
                     f'{func}{tuple(args)!r}: {bad}')
        return got


def check_dec2(ctx, name, n, places=None, as_text=False):
    base = BASES[name]
    exp = model_dec2(n, base, places)
    half = HALF[base]
    cls = ('out-of-range' if not -half <= n < half else
           'negative' if n < 0 else 'valid') + \
        (':places' if places is not None else '') + \
        (':text' if as_text else '')
    arg = str(n) if as_text else n
    args = (arg,) if places is None else (arg, places)
    nontrivial = n < 0 or places is not None or n in (
        -half, half - 1, -half - 1, half)
    got = ctx.run(f'DEC2{name}', args, exp, cls, nontrivial)
    # round trip
    if isinstance(got, str) and got not in ERRSET and -half <= n < half:
        back = ctx.run(f'{name}2DEC', (got,), n, 'roundtrip', nontrivial)
        del back


def check_2dec(ctx, name, s, as_number=False):
    base = BASES[name]
    exp = model_2dec(s, base)
    cls = str_class(s, base)
    arg = int(s) if as_number else s
    nontrivial = cls != 'valid' or as_number
    got = ctx.run(f'{name}2DEC', (arg,), exp,
                  cls + (':number' if as_number else ''), nontrivial)
    # base-to-base equals the composition through decimal
    for other, obase in BASES.items():
        if other == name:
            continue
        if exp is CLOSURE:
            exp2 = CLOSURE
        elif exp is ANYERR:
            exp2 = ANYERR
        elif isinstance(exp, str):
            exp2 = exp
        else:
            exp2 = model_dec2(exp, obase)
        got2 = ctx.run(f'{name}2{other}', (arg,), exp2,
                       cls + (':number' if as_number else ''), nontrivial)
        # differential: pycel's own composition
        if got is not None and got2 is not None and \
                not isinstance(got, str) and exp is not CLOSURE:
            comp = ctx.run(f'DEC2{other}', (got,), CLOSURE, 'composition',
                           False)
            if comp is not None and comp != got2:
                ctx.rec.fail(
                    f'{name}2{other}:composition:{cls}',
                    dict(func=f'{name}2{other}', args=[arg], form=ctx.form),
                    f'{name}2{other}({arg!r})={got2!r} but '
                    f'DEC2{other}({name}2DEC({arg!r}))={comp!r}')


def check_2base_places(ctx, name, other, s, places):
    base, obase = BASES[name], BASES[other]
    v = model_2dec(s, base)
    if v is CLOSURE or v is ANYERR or isinstance(v, str):
        return
    exp = model_dec2(v, obase, places)
    ctx.run(f'{name}2{other}', (s, places), exp,
            str_class(s, base) + ':places', True)


def boundaries(base):
    half = HALF[base]
    vals = {0, 1, -1, 7, 8, 15, 16, 255, 256, -255, -256, half - 1, half - 2,
            -half, -half + 1, half, -half - 1, half + 1, 2 * half,
            -2 * half, 2 * half - 1}
    return sorted(vals)


def check_persisted(rec):
    """digit strings held in cells (typed, or what DEC2HEX returned) convert
    the same after the model went through a file; several of them look like
    numbers in exponent notation"""
    import os
    from pycel.excelcompiler import ExcelCompiler
    from vlib.xl import TempDir
    texts = ['1E3', '2e2', '00E1', '12E4', '7E8', '1E30', 'E1', '1E', 'FF',
             '1EE3', '0101', '777', '1e1', '0E0', '9E9', '00012', '1.0',
             '-1', '+5', '1_0', '017', 'TRUE']
    cells, formulas = {}, {}
    for i, t in enumerate(texts):
        cells[f'A{i + 1}'] = t
        for j, f in enumerate(('HEX2DEC', 'OCT2DEC', 'BIN2DEC', 'HEX2OCT')):
            formulas[f'{"BCDE"[j]}{i + 1}'] = f'={f}(A{i + 1})'
    cells['G1'] = 483
    formulas['G2'] = '=DEC2HEX(G1)'
    formulas['G3'] = '=HEX2DEC(G2)'
    with TempDir() as tmp:
        model = compile_spec({'sheets': {'S': dict(cells, **formulas)}},
                             filename=os.path.join(tmp, 'book'))
        want = {a: model.evaluate(f'S!{a}') for a in formulas}
        # (G2 is frozen to its text "1E3" by the trim)
        model.trim_graph(['S!A1'], [f'S!{a}' for a in formulas
                                    if a != 'G2'])
        for fmt in ('yml', 'json', 'pkl'):
            model.to_file(os.path.join(tmp, 'm'), file_types=(fmt,))
            loaded = ExcelCompiler.from_file(os.path.join(tmp, f'm.{fmt}'))
            for a in formulas:
                if a == 'G2':
                    continue
                case = dict(kind_='persisted', fmt=fmt, cell=a)
                rec.case(key=('persisted', fmt, a), nontrivial=True,
                         labels=('persisted', f'fmt:{fmt}'), sample=case)
                try:
                    got = loaded.evaluate(f'S!{a}')
                except Exception as exc:
                    got = ('raises', exc_key(exc))
                if got != want[a]:
                    row = int(a[1:])
                    rec.fail(f'persisted:{formulas[a].split("(")[0][1:]}:{fmt}',
                             case,
                             f'{formulas[a]} with the cell holding '
                             f'{cells.get("A" + str(row))!r} = {want[a]!r}, '
                             f'after to_file/from_file ({fmt}) {got!r}')


def shards(tier, seed):
    out = [dict(kind='bin-dec2', part=k, parts=4) for k in range(4)]
    out += [dict(kind='bin-strings', part=k, parts=4,
                 maxlen=9 if tier == 'quick' else 11) for k in range(4)]
    out.append(dict(kind='boundaries'))
    out.append(dict(kind='malformed'))
    out.append(dict(kind='workbook'))
    out.append(dict(kind='purity'))
    n_h = 4 if tier == 'quick' else 16
    for k in range(n_h):
        out.append(dict(kind='hyp', seed=seed * 1000 + k,
                        n=1200 if tier == 'quick' else 100000))
    return out


def purity_items():
    """arguments that are equal (and hash-equal) in python but different in
    Excel: TRUE / 1 / 1.0, FALSE / 0, numbers and their text"""
    items = []
    for f in ('DEC2BIN', 'DEC2OCT', 'DEC2HEX'):
        for v in (True, 1, 1.0, '1', False, 0, 0.0, '0', -1, -1.0, '-1',
                  511, 511.0, '511'):
            items.append((f'={f}(A1)', {'A1': v}))
            for places in (4, 10, 4.0, '4', True):
                items.append((f'={f}(A1,B1)', {'A1': v, 'B1': places}))
    for f in ('BIN2DEC', 'OCT2DEC', 'HEX2DEC', 'BIN2OCT', 'BIN2HEX',
              'OCT2BIN', 'OCT2HEX', 'HEX2BIN', 'HEX2OCT'):
        for v in (1, '1', True, 1.0, 10, '10', 10.0, 0, '0', False, 0.0,
                  '0000000001', 1111111111, '1111111111', 1111111111.0):
            items.append((f'={f}(A1)', {'A1': v}))
    return items


def run_shard(shard, rec):
    kind = shard['kind']
    if kind == 'purity':
        from vlib import purity
        purity.order_independence(rec, purity_items(), 'C18')
        rec.exhaustive.append('python-equal argument aliases x 12 functions '
                              'in three evaluation orders, fresh interpreter '
                              'each')
        return
    ctx = Ctx(rec)
    if kind == 'bin-dec2':
        for n in range(-514, 514)[shard['part']::shard['parts']]:
            check_dec2(ctx, 'BIN', n)
            for places in range(1, 11):
                check_dec2(ctx, 'BIN', n, places)
            check_dec2(ctx, 'BIN', n, as_text=True)
            check_dec2(ctx, 'OCT', n)
            check_dec2(ctx, 'HEX', n)
        rec.exhaustive.append('DEC2BIN over -514..513 x places None,1..10')
    elif kind == 'bin-strings':
        idx = 0
        for length in range(1, shard['maxlen'] + 1):
            for digits in itertools.product('01', repeat=length):
                if idx % shard['parts'] == shard['part']:
                    s = ''.join(digits)
                    check_2dec(ctx, 'BIN', s)
                    if not s.startswith('0') or s == '0':
                        check_2dec(ctx, 'BIN', s, as_number=True)
                idx += 1
        rec.exhaustive.append(
            f'all binary strings of length <= {shard["maxlen"]}')
    elif kind == 'boundaries':
        for name, base in BASES.items():
            for n in boundaries(base):
                check_dec2(ctx, name, n)
                check_dec2(ctx, name, n, as_text=True)
                for places in (1, 2, 3, 9, 10):
                    check_dec2(ctx, name, n, places)
                half = HALF[base]
                if -half <= n < half:
                    s = to_base(n + 2 * half if n < 0 else n, base)
                    check_2dec(ctx, name, s)
                    check_2dec(ctx, name, s.lower())
                    check_2dec(ctx, name, s.zfill(10))
                    check_2dec(ctx, name, s.zfill(11))
                    for other in BASES:
                        if other != name:
                            for places in (1, 3, 10):
                                check_2base_places(ctx, name, other, s,
                                                   places)
        # the range boundaries of every *output* base, written in every
        # other (wider) input base: HEX2BIN at -512 / 511 / 512 / -513, ...
        for name, base in BASES.items():
            half = HALF[base]
            for other, obase in BASES.items():
                if other == name:
                    continue
                for n in boundaries(obase):
                    if -half <= n < half:
                        s = to_base(n + 2 * half if n < 0 else n, base)
                        check_2dec(ctx, name, s)
                        check_2dec(ctx, name, s.lower())
        rec.exhaustive.append('range boundaries of all three bases, each '
                              'written in all three bases')
    elif kind == 'malformed':
        # a places argument that is not a number: an error value, never an
        # exception; an error value is handed through
        for name in BASES:
            for bad, exp in (('x', ANYERR), ('', CLOSURE), ('#DIV/0!', '#DIV/0!'),
                             ('#N/A', '#N/A'), ('4x', ANYERR), ('1e', ANYERR)):
                ctx.run(f'DEC2{name}', (5, bad), exp, 'malformed-places', True)
                for other in BASES:
                    if other != name:
                        ctx.run(f'{name}2{other}', ('1', bad), exp,
                                'malformed-places', True)
        seeds = {'BIN': ['1', '101', '1111111111', '0000000001'],
                 'OCT': ['7', '17', '7777777777', '0000000010'],
                 'HEX': ['F', '1f', 'FFFFFFFFFF', '00000000A0']}
        for name, strings in seeds.items():
            for s in strings + ['']:
                for ch in ILLEGAL + ['2', '8', '9', 'A', 'a', 'F', 'f']:
                    for pos in sorted({0, len(s) // 2, len(s)}):
                        t = s[:pos] + ch + s[pos:]
                        if len(t) <= 11:
                            check_2dec(ctx, name, t)
            for pre in ('0b', '0B', '0x', '0X', '0o', '0O'):
                check_2dec(ctx, name, pre + '1')
                check_2dec(ctx, name, pre + '10')
        for bad in ('1_0', ' 5', '5 ', '+5', '٣', '1e1', '0x10', 'abc', '',
                    '5.5', 'nan', 'inf'):
            for name in BASES:
                exp = CLOSURE if bad.strip() in ('5', '+5', '', '1e1',
                                                 '5.5') else ANYERR
                ctx.run(f'DEC2{name}', (bad,), exp, 'malformed-number:' +
                        repr(bad), True)
        rec.exhaustive.append('one illegal character at start/middle/end')
    elif kind == 'workbook':
        wctx = Ctx(rec, form='workbook')
        for n in (-512, -1, 0, 5, 511, 512):
            check_dec2(wctx, 'BIN', n)
            check_dec2(wctx, 'BIN', n, 10)
            check_dec2(wctx, 'HEX', n * 1000003)
        for s in ('101', '1111111111', '12', ' 1', '+1', '1_0'):
            check_2dec(wctx, 'BIN', s)
        for s in ('FF', 'ff', 'FFFFFFFFFF', '0x1F', 'G'):
            check_2dec(wctx, 'HEX', s)
        check_persisted(rec)
    elif kind == 'hyp':
        def value_for(base):
            half = HALF[base]
            return st.one_of(st.integers(-half, half - 1),
                             st.integers(-half - 1000, half + 1000),
                             st.sampled_from(boundaries(base)))

        def digits_for(base):
            alphabet = DIGITS[base] + (
                'abcdef' if base == 16 else '')
            return st.text(alphabet=alphabet, min_size=1, max_size=11)

        names = st.sampled_from(sorted(BASES))
        strategy = st.one_of(
            names.flatmap(lambda nm: st.tuples(
                st.just('dec2'), st.just(nm), value_for(BASES[nm]),
                st.one_of(st.none(), st.integers(1, 10)))),
            names.flatmap(lambda nm: st.tuples(
                st.just('2dec'), st.just(nm), digits_for(BASES[nm]),
                st.none())),
            names.flatmap(lambda nm: st.tuples(
                st.just('mal'), st.just(nm), digits_for(BASES[nm]),
                st.tuples(st.sampled_from(ILLEGAL + ['G', '9', '8', '2']),
                          st.integers(0, 11)))),
            st.tuples(st.just('places'), st.tuples(names, names),
                      st.integers(0, 2 ** 39 - 1), st.integers(1, 10)),
        )

        def body(case):
            before = dict(rec.fail_counts)
            if case[0] == 'dec2':
                check_dec2(ctx, case[1], case[2], case[3])
            elif case[0] == '2dec':
                check_2dec(ctx, case[1], case[2])
            elif case[0] == 'mal':
                ch, pos = case[3]
                s = case[2]
                pos = min(pos, len(s))
                s = (s[:pos] + ch + s[pos:])[:11]
                check_2dec(ctx, case[1], s)
            else:
                a, b = case[1]
                if a != b:
                    v = case[2] % HALF[BASES[a]]
                    check_2base_places(ctx, a, b, to_base(v, BASES[a]),
                                       case[3])
            for k, v in rec.fail_counts.items():
                if v != before.get(k, 0):
                    return k, rec.failures[k][2]
            return None
        hyp.search(rec, strategy, body, shard['n'], shard['seed'])


def replay(case, rec):
    if isinstance(case, dict) and case.get('kind_') == 'persisted':
        check_persisted(rec)
        return
    if isinstance(case, dict) and case.get('kind') == 'purity':
        from vlib import purity
        purity.order_independence(
            rec, [(f, c) for f, c in case['items']], 'C18')
        return
    ctx = Ctx(rec, form=case.get('form', 'fast') if isinstance(case, dict)
              else 'fast')
    if isinstance(case, list):
        if case[0] == 'dec2':
            check_dec2(ctx, case[1], case[2], case[3])
        elif case[0] == '2dec':
            check_2dec(ctx, case[1], case[2])
        elif case[0] == 'mal':
            ch, pos = case[3]
            s = case[2]
            pos = min(pos, len(s))
            check_2dec(ctx, case[1], (s[:pos] + ch + s[pos:])[:11])
        return
    func, args = case['func'], case['args']
    if func.startswith('DEC2'):
        name = func[4:]
        n = args[0]
        places = args[1] if len(args) > 1 else None
        if isinstance(places, str):
            exp = places if places in ERRSET else \
                CLOSURE if places == '' else ANYERR
            ctx.run(func, tuple(args), exp, 'malformed-places', True)
            return
        if isinstance(n, str):
            # (python's int() is itself lenient: "1_0", " 10", "١٠")
            if re.fullmatch(r'-?[0-9]+', n):
                check_dec2(ctx, name, int(n), places, as_text=True)
            else:
                ctx.run(func, tuple(args), ANYERR, 'malformed-number', True)
        else:
            check_dec2(ctx, name, n, places)
    else:
        name = func.split('2')[0]
        if len(args) > 1:
            check_2base_places(ctx, name, func.split('2')[1], args[0],
                               args[1])
        elif isinstance(args[0], str):
            check_2dec(ctx, name, args[0])
        else:
            check_2dec(ctx, name, str(args[0]), as_number=True)
