"""C09 - a failed evaluation does not corrupt the model.

Fault enumeration: every formula cell of a generated workbook is in turn made
to fail (unknown function; plugin function raising on its k-th call, also
after a captured operator error) and followed by a generated history (retry,
dependants, unrelated cells, writes, overwriting the failing cell), in plain
and iterative mode.

Oracle per evaluation, driven by what the fault plugin observed: if an
injected fault fired the call must raise one of pycel's own errors; if none
fired the call must return the value of a fresh model (never a stale value,
never a spurious failure)."""

import itertools
import re

import networkx as nx
from hypothesis import strategies as st

from vlib import hyp, models, plugin, wbspec
from vlib.xl import compile_spec, exc_key

ID = 'C09'
LEVEL = 'fault_enumeration'
TECHNIQUE = ('fault injection through a plugin library: each formula cell '
             'in turn x fault kind (unknown function, raise on call k, raise '
             'after a captured operator error) x Hypothesis-generated '
             'follow-up history x {plain, iterative}; observation-driven '
             'oracle against a fresh model'
             "; fault kinds ending in python's usual exception types, unknown functions named like python builtins / module internals; enumerated scenarios: precedent that can not be loaded, trim_graph with a failing cell to freeze, fault inside a cycle")
LEVEL_TEXT = ('Fault enumeration: fault sites are enumerated (every formula '
              'cell of each sampled workbook, incl. range members and CSE '
              'arrays, plus a fixed circular system), fault schedules are '
              'enumerated over {call 1, call 2, calls 1-2, always, unknown '
              'function}, follow-up histories are sampled.')
LEVEL_NOTE = ('Trusts the plugin\'s record of which injected faults fired, '
              'a fresh compile as reference value, and dep_graph descendants '
              '(validated by C04) to decide which cells depend on the '
              'failing one.')
RULE = ('case = (spec, failing formula cell, fault kind, mode, follow-up '
        'history of evaluate / write / overwrite steps); non-trivial = the '
        'fault site has a dependant and an unrelated formula and the history '
        'contains the repair (overwrite) or a successful retry; distinct = '
        'distinct case')
ASSUMPTIONS = ['after the failing cell has been overwritten, the history '
               'writes only to inputs that are not its ancestors (pycel '
               'keeps the formula of an overwritten cell)']
MIN_NONTRIVIAL = {'quick': 300, 'thorough': 6000}

KINDS = ['unknown', 'call1', 'call2', 'call12', 'always', 'after-error1',
         'after-error-always',
         # the same faults ending in the exception types python code
         # typically dies with (kind!ExceptionName)
         'call1!NameError', 'always!UnboundLocalError', 'call12!KeyError',
         'call1!TypeError', 'call2!AttributeError', 'always!IndexError']
RULES = {'call1': {1}, 'call2': {2}, 'call12': {1, 2}, 'always': 'all',
         'after-error1': {1}, 'after-error-always': 'all'}
VALUES = [0, 1, 2, 3, -1, 2.5, 10, 42, 'a', True, None, 7]


# names pycel does not implement; most of them exist as python builtins
UNKNOWN_NAMES = ['NOSUCHFUNCTION', 'TYPE', 'HEX', 'FILTER', 'MAP', 'FORMAT',
                 'LIST', 'ZIP', 'ID', 'SORTED',
                 # constants of python's math module, helpers that pycel's
                 # library modules import for their own use
                 'E', 'TAU', 'INF', 'FLATTEN', 'LIST_LIKE', 'IS_NUMBER',
                 'COERCE_TO_NUMBER']


def wrap(formula, kind, site=0):
    kind = kind.split('!')[0]
    expr = formula[1:]
    if kind == 'unknown':
        # reference = the formula without the unknown function: a dependant
        # that returns a value although the site can not be calculated must
        # at least not have used a made-up value for it
        name = UNKNOWN_NAMES[site % len(UNKNOWN_NAMES)]
        return f'={name}({expr})', formula
    if kind.startswith('after-error'):
        return f'=(1/0)+VFAIL(1,{expr})', f'=(1/0)+({expr})'
    return f'=VFAIL(1,{expr})', formula


def steps_strategy():
    idx = st.integers(0, 40)
    return st.lists(st.one_of(
        st.tuples(st.just('evalF')), st.tuples(st.just('evalF')),
        st.tuples(st.just('evaldep'), idx),
        st.tuples(st.just('evalother'), idx),
        st.tuples(st.just('eval'), idx),
        st.tuples(st.just('set'), idx, st.sampled_from(VALUES)),
        st.tuples(st.just('overwrite'), st.sampled_from([5, 0, 'k', -2.5])),
        st.tuples(st.just('evalall'))), min_size=2, max_size=12)


def pycel_error(exc):
    from pycel.excelutil import PyCelException
    return isinstance(exc, PyCelException)


def check_case(rec, spec, site, kind, iterative, steps):
    forms = spec['formulas']
    arrays = spec.get('arrays', [])
    # choose the fault site
    F = forms[site % len(forms)]
    sheet, coord = F.rsplit('!', 1)
    spec_f = dict(spec)
    spec_f['sheets'] = {n: dict(c) for n, c in spec['sheets'].items()}
    spec_f['arrays'] = [dict(a) for a in arrays]
    spec_ref = dict(spec)
    spec_ref['sheets'] = {n: dict(c) for n, c in spec['sheets'].items()}
    spec_ref['arrays'] = [dict(a) for a in arrays]
    array_site = models.feature_of(spec, F) == 'array-member'
    if array_site:
        def holds(a):
            first, last = a['ref'].split(':')
            return a['sheet'] == sheet and \
                first[0] <= coord[0] <= last[0] and \
                int(first[1:]) <= int(coord[1:]) <= int(last[1:])
        arr = next(a for a in spec_f['arrays'] if holds(a))
        faulty, ref = wrap(arr['formula'], kind, site)
        arr['formula'] = faulty
        if ref is not None:
            next(a for a in spec_ref['arrays'] if holds(a))['formula'] = ref
        first, last = arr['ref'].split(':')
        members = [f'{sheet}!{chr(c)}{r}'
                   for r in range(int(first[1:]), int(last[1:]) + 1)
                   for c in range(ord(first[0]), ord(last[0]) + 1)]
        F = f'{sheet}!{first}'
        members.append(f'{sheet}!{arr["ref"]}')     # the range node itself
    else:
        faulty, ref = wrap(spec['sheets'][sheet][coord], kind, site)
        spec_f['sheets'][sheet][coord] = faulty
        if ref is not None:
            spec_ref['sheets'][sheet][coord] = ref
        members = [F]
    case = dict(spec=spec, site=site, kind=kind, iterative=iterative,
                steps=[list(s) for s in steps])
    plugin.reset()
    if kind.split('!')[0] in RULES:
        plugin.FAIL_ON[1] = RULES[kind.split('!')[0]]
    if '!' in kind:
        import builtins
        plugin.FAIL_EXC[0] = getattr(builtins, kind.split('!')[1])
    state = dict(overwritten=False, repaired=False, retried_ok=False,
                 inputs={})
    failure = []
    mode = 'iterative' if iterative else 'plain'
    position = 'array' if array_site else models.feature_of(spec, F)

    def fail(key, msg):
        if not failure:
            failure.append((f'{key}:{kind}:{mode}', msg))

    try:
        # who depends on the fault site (probe built without the fault)
        probe = compile_spec(wbspec.build_spec(spec))
        for a in forms:
            models.safe_eval(probe, a)
        down = set()
        anc = set()
        for m in members:
            cell = probe.cell_map.get(m)
            if cell is not None and cell in probe.dep_graph:
                down |= {c.address.address for c in
                         nx.descendants(probe.dep_graph, cell)}
                anc |= {c.address.address for c in
                        nx.ancestors(probe.dep_graph, cell)}
        down |= set(members)
        # cells that read through a computed reference (OFFSET / INDIRECT),
        # and what depends on them: a write is not propagated to them (the
        # dependency graph holds written references only, see C01), so their
        # values are not compared with a fresh model once something was
        # written
        dyn = set()
        for a in forms:
            sh, co = a.rsplit('!', 1)
            f = spec['sheets'].get(sh, {}).get(co)
            if isinstance(f, str) and ('OFFSET(' in f or 'INDIRECT(' in f):
                dyn.add(a)
                cell = probe.cell_map.get(a)
                if cell is not None and cell in probe.dep_graph:
                    dyn |= {c.address.address for c in
                            nx.descendants(probe.dep_graph, cell)}
        deps = [a for a in forms if a in down and a not in members]
        others = [a for a in forms if a not in down]
        free_inputs = [a for a in spec['inputs'] if a not in anc]

        model = compile_spec(wbspec.build_spec(spec_f),
                             cycles=True if iterative else None,
                             plugins='vlib.plugin')

        def reference(inputs, overwritten):
            vals = dict(inputs)
            s = spec_ref
            if overwritten is not False:
                s = dict(spec_ref)
                s['sheets'] = {n: dict(c) for n, c in spec_ref['sheets'].items()}
                s['sheets'][sheet][coord] = overwritten
            return wbspec.with_inputs(s, vals)

        ref_cache = {}
        # every state the model has been in: (inputs, overwritten)
        snapshots = [({}, False)]

        def expected(addr, snapshot=None):
            inputs, overwritten = snapshot or (state['inputs'],
                                               state['overwritten'])
            key = (repr(sorted(inputs.items(), key=repr)), repr(overwritten))
            if key not in ref_cache:
                if len(ref_cache) > 16:
                    ref_cache.clear()
                ref_cache[key] = compile_spec(
                    wbspec.build_spec(reference(inputs, overwritten)))
            return models.safe_eval(ref_cache[key], addr)

        import pycel.excelformula as xf
        site_cells = set(members)
        site_evals = [0]

        def hook(event, excel_formula, address):
            # an unknown function "fires" whenever the formula of the fault
            # site is evaluated
            # (a sub-range of a CSE array block carries a copy of its formula)
            if event == 'eval' and (
                    excel_formula.cell is not None and
                    excel_formula.cell.address.address in site_cells or
                    re.search(r'(?<![a-z0-9_.])' + re.escape(
                        UNKNOWN_NAMES[site % len(UNKNOWN_NAMES)].lower()) +
                        r'\(', str(excel_formula.python_code).lower())):
                site_evals[0] += 1

        def observe(addr):
            before = plugin.RAISED[0]
            evals_before = site_evals[0]
            xf.verif_hook = hook
            try:
                got = model.evaluate(addr)
                exc = None
            except Exception as e:      # noqa
                got, exc = None, e
            finally:
                xf.verif_hook = None
            fired = plugin.RAISED[0] != before
            if kind == 'unknown' and state['overwritten'] is False:
                fired = site_evals[0] != evals_before
            is_down = False
            where = 'site' if addr in members else \
                'dependant' if addr in down else 'unrelated'
            if exc is not None and state['overwritten'] is not False and \
                    pycel_error(exc) and addr in down:
                fail(f'overwrite-ineffective:{where}',
                     f'evaluate({addr}) still raises {exc_key(exc)} after '
                     f'the failing cell {F} was overwritten with '
                     f'{state["overwritten"]!r}')
                return
            if exc is not None:
                if not (pycel_error(exc)):
                    fail(f'bare-exception:{type(exc).__name__}:{where}',
                         f'evaluate({addr}) raised {exc!r}'[:400])
                    return
                must_fail = fired or (kind == 'unknown' and is_down)
                if not must_fail and addr in dyn:
                    # may read the failing cell through a computed reference
                    rec.label('computed-reference-may-reach-the-site')
                    return
                if not must_fail:
                    fail(f'spurious-failure:{where}',
                         f'evaluate({addr}) raised {exc_key(exc)} although '
                         f'no fault fired and it does not depend on a '
                         f'failing cell (site {F})')
                return
            if fired or (kind == 'unknown' and is_down):
                fail(f'fault-swallowed:{where}',
                     f'evaluate({addr}) returned {got!r} although the fault '
                     f'at {F} {"fired" if fired else "persists"}')
                return
            if kind == 'unknown' and state['overwritten'] is False and \
                    addr in members:
                fail(f'fault-swallowed:{where}',
                     f'evaluate({addr}) returned {got!r} although its '
                     f'formula calls an unknown function')
                return
            if addr in dyn and len(snapshots) > 1:
                # a computed reference is not followed by invalidation: the
                # value may be the one of any state the model has been in
                rec.label('computed-reference-after-write')
                olds = [expected(addr, snap) for snap in snapshots]
                if not any(models.same_value(got, w) or (
                        isinstance(w, tuple) and w[:1] == ('raises',))
                        for w in olds):
                    fail(('overwrite-ineffective' if addr in down and
                          state['overwritten'] is not False else
                          'wrong-value-after-fault') +
                         f':{where}:computed-reference',
                         f'evaluate({addr}) = {got!r}, which it never had: '
                         f'fresh models of the {len(snapshots)} states give '
                         f'{olds!r}'[:400])
                return
            want = expected(addr)
            if isinstance(want, tuple) and want[:1] == ('raises',):
                return
            if not models.same_value(got, want):
                fail(('overwrite-ineffective' if addr in down and
                      state['overwritten'] is not False else
                      'wrong-value-after-fault') + f':{where}',
                     f'evaluate({addr}) = {got!r}, a fresh model gives '
                     f'{want!r} (site {F}, overwritten='
                     f'{state["overwritten"]!r}, inputs {state["inputs"]})')
                return
            if addr in down and state['overwritten'] is False:
                state['retried_ok'] = True
            if addr in down and state['overwritten'] is not False and \
                    addr not in members:
                state['repaired'] = True

        with rec.watch(f'hang:{kind}:{mode}', case, limit=120):
            for step in steps + [('evalall',)]:
                if failure:
                    break
                op = step[0]
                if op == 'evalF':
                    observe(F)
                elif op == 'evaldep' and deps:
                    observe(deps[step[1] % len(deps)])
                elif op == 'evalother' and others:
                    observe(others[step[1] % len(others)])
                elif op == 'eval':
                    observe(forms[step[1] % len(forms)])
                elif op == 'set':
                    pool = free_inputs if state['overwritten'] is not False \
                        else spec['inputs']
                    if pool:
                        a = pool[step[1] % len(pool)]
                        if a not in model.cell_map:
                            try:
                                model.evaluate(a)
                            except Exception:
                                continue
                        model.set_value(a, step[2])
                        state['inputs'][a] = step[2]
                        snapshots.append((dict(state['inputs']),
                                          state['overwritten']))
                elif op == 'overwrite' and not array_site:
                    if F not in model.cell_map:
                        try:
                            model.evaluate(F)
                        except Exception:
                            pass
                    if F in model.cell_map:
                        model.set_value(F, step[1])
                        state['overwritten'] = step[1]
                        snapshots.append((dict(state['inputs']),
                                          state['overwritten']))
                elif op == 'evalall':
                    for a in forms:
                        if failure:
                            break
                        observe(a)
    except Exception as exc:
        fail(f'harness-visible-raise:{type(exc).__name__}',
             f'{exc!r}'[:300])
    rec.case(key=(repr(spec['sheets']), repr(arrays), site, kind, iterative,
                  repr(steps)),
             nontrivial=bool(deps) and bool(others) and (
                 state['repaired'] or state['retried_ok']),
             labels=(f'kind:{kind}', f'mode:{mode}', f'position:{position}',
                     'repaired' if state['repaired'] else 'not-repaired',
                     'retry-ok' if state['retried_ok'] else 'no-retry-ok'),
             sample=dict(site=F, kind=kind, mode=mode,
                         steps=[list(s) for s in steps],
                         sheets=spec_f['sheets'], arrays=spec_f['arrays']))
    if failure:
        rec.fail(failure[0][0], case, failure[0][1])
        return failure[0]
    return None


def check_cycle(rec, kind, steps_seed):
    """fault inside a cycle (iterative mode)"""
    plugin.reset()
    plugin.FAIL_ON[1] = RULES[kind]
    cells = {'B1': 1.0, 'B2': 2.0,
             'A1': '=VFAIL(1,B1+0.5*A2)', 'A2': '=B2+0.25*A1',
             'C1': '=B1*10', 'D1': '=A1+A2'}
    case = dict(kind_=kind, cycle=True)
    rec.case(key=('cycle', kind, steps_seed), nontrivial=True,
             labels=('cycle', f'kind:{kind}'), sample=dict(cells=cells,
                                                           kind=kind))
    # fixed point: a1 = 1 + .5 a2, a2 = 2 + .25 a1 -> a1 = 2/0.875
    a1 = 2 / 0.875
    a2 = 2 + 0.25 * a1
    try:
        model = compile_spec({'sheets': {'S': cells}}, cycles=True,
                             plugins='vlib.plugin')
        for attempt in range(6):
            before = plugin.RAISED[0]
            try:
                got = model.evaluate('S!D1', iterations=200, tolerance=1e-9)
                exc = None
            except Exception as e:    # noqa
                got, exc = None, e
            fired = plugin.RAISED[0] != before
            other = models.safe_eval(model, 'S!C1')
            if other != 10.0:
                rec.fail(f'cycle:unrelated-corrupted:{kind}', case,
                         f'C1 = {other!r} after a failure inside the cycle')
                return
            if exc is not None:
                if not pycel_error(exc):
                    rec.fail(f'cycle:bare-exception:{type(exc).__name__}:'
                             f'{kind}', case, repr(exc)[:300])
                    return
                if not fired:
                    rec.fail(f'cycle:spurious-failure:{kind}', case,
                             repr(exc)[:300])
                    return
                continue
            if fired:
                rec.fail(f'cycle:fault-swallowed:{kind}', case,
                         f'D1 = {got!r} although the fault fired')
                return
            if abs(got - (a1 + a2)) > 1e-6:
                rec.fail(f'cycle:wrong-value-after-fault:{kind}', case,
                         f'D1 = {got!r} after retry, fixed point gives '
                         f'{a1 + a2!r}')
            return
    except Exception as exc:
        rec.fail(f'cycle:raises:{type(exc).__name__}:{kind}', case,
                 repr(exc)[:300])


def check_unloadable(rec):
    """the failure happens while the graph is built: a precedent of the
    failing cell can not be loaded (linked workbook, missing sheet); cells
    queued for analysis in the same pass must not suffer"""
    import itertools
    for bad_ref, order, first in itertools.product(
            ('[1]Other!A1', 'NoSuchSheet!A1'),
            list(itertools.permutations(['S!D1', 'S!B1', 'S!C1', 'S!E1'])) +
            # (loading a further cell would finish the interrupted analysis)
            list(itertools.permutations(['S!D1', 'S!B1', 'S!C1'])),
            (True, False)):
        cells = {'A1': 1, 'A2': 2, 'D1': '=A1+A2', 'C1': '=A1*A2',
                 'B1': ('=C1+' + bad_ref) if first else
                       ('=' + bad_ref + '+C1'),
                 'E1': '=SUM(A1:A2)+C1'}
        case = dict(kind_='unloadable', bad_ref=bad_ref, order=list(order),
                    first=first)
        rec.case(key=('unloadable', bad_ref, order, first), nontrivial=True,
                 labels=('unloadable-precedent',), sample=case)
        try:
            model = compile_spec({'sheets': {'S': cells}})
            for value in (None, 5, -2):
                if value is not None:
                    if 'S!A1' not in model.cell_map:
                        model.evaluate('S!A1')
                    model.set_value('S!A1', value)
                vals = dict(cells)
                if value is not None:
                    vals['A1'] = value
                fresh = compile_spec({'sheets': {'S': vals}})
                for addr in order:
                    if addr == 'S!B1':
                        try:
                            got = model.evaluate(addr)
                        except Exception:
                            continue
                        rec.fail('unloadable:fault-swallowed', case,
                                 f'evaluate(S!B1) ({cells["B1"]}) = {got!r}')
                        break
                    got = models.safe_eval(model, addr)
                    want = fresh.evaluate(addr)
                    if not models.same_value(got, want):
                        rec.fail('unloadable:unrelated-cell-wrong', case,
                                 f'B1 {cells["B1"]} can not load a precedent;'
                                 f' order {list(order)}, A1={value!r}: {addr} '
                                 f'= {got!r}, a fresh model gives {want!r}')
                        break
                else:
                    continue
                break
        except Exception as exc:
            rec.fail(f'unloadable:raises:{exc_key(exc)}', case,
                     repr(exc)[:300])


def check_trim_with_failure(rec):
    """the failing cell is one trim_graph has to calculate and freeze (a
    precedent of an output that does not depend on an input)"""
    for kind, mid, iterative, pre in itertools.product(
            ('unknown', 'always', 'call1', 'call12'), (False, True),
            (False, True), (False, True)):
        plugin.reset()
        if kind in RULES:
            plugin.FAIL_ON[1] = RULES[kind]
        site = '=NOSUCHFUNCTION(B1*2)' if kind == 'unknown' else \
            '=VFAIL(1,B1*2)'
        cells = {'A1': 1, 'B1': 3, 'C1': site,
                 'C2': '=C1+1' if mid else '=B1+1',
                 'D1': '=A1+C1+C2', 'E1': '=A1*2'}
        good = dict(cells, C1='=B1*2')
        case = dict(kind_='trim-failure', kind=kind, mid=mid,
                    iterative=iterative, pre=pre)
        rec.case(key=('trim-failure', kind, mid, iterative, pre),
                 nontrivial=True, labels=('trim-with-failure', f'kind:{kind}'),
                 sample=case)
        tag = f'{kind}:{"iterative" if iterative else "plain"}'
        try:
            model = compile_spec({'sheets': {'S': cells}},
                                 cycles=True if iterative else None,
                                 plugins='vlib.plugin')
            if pre:
                models.safe_eval(model, 'S!E1')
            trimmed = False
            for attempt in range(4):
                before = plugin.RAISED[0]
                try:
                    model.trim_graph(['S!A1'], ['S!D1', 'S!E1'])
                    trimmed = True
                    break
                except Exception as exc:
                    if not pycel_error(exc):
                        rec.fail(f'trim:bare-exception:{type(exc).__name__}:'
                                 f'{tag}', case, repr(exc)[:300])
                        break
                    if kind != 'unknown' and plugin.RAISED[0] == before:
                        rec.fail(f'trim:spurious-failure:{tag}', case,
                                 repr(exc)[:300])
                        break
            else:
                continue        # keeps failing, as it must for a lasting fault
            if not trimmed:
                continue
            persistent = kind in ('unknown', 'always')
            for value in (1, 7):
                model.set_value('S!A1', value)
                fresh = compile_spec(
                    {'sheets': {'S': dict(good, A1=value)}})
                for addr in ('S!D1', 'S!E1'):
                    try:
                        got = model.evaluate(addr)
                    except Exception as exc:
                        if not pycel_error(exc):
                            rec.fail(f'trim:bare-exception:'
                                     f'{type(exc).__name__}:{tag}', case,
                                     repr(exc)[:300])
                        elif addr == 'S!E1' or not persistent:
                            rec.fail(f'trim:spurious-failure:{tag}', case,
                                     f'{addr}: {exc!r}'[:300])
                        continue
                    if addr == 'S!D1' and persistent:
                        rec.fail(f'trim:fault-swallowed:{tag}', case,
                                 f'trim_graph went through although C1 '
                                 f'({site}) can not be calculated, and D1 = '
                                 f'{got!r}')
                    elif not models.same_value(got, fresh.evaluate(addr)):
                        rec.fail(f'trim:wrong-value-after-fault:{tag}', case,
                                 f'{addr} = {got!r}, a fresh model without '
                                 f'the fault gives {fresh.evaluate(addr)!r}')
        except Exception as exc:
            rec.fail(f'trim:harness-visible-raise:{type(exc).__name__}', case,
                     repr(exc)[:300])


@st.composite
def column_specs(draw):
    """workbooks whose formula cells lie INSIDE whole-column / whole-row
    references of the same sheet (wbspec keeps those on an input-only sheet),
    so the fault site is a member of an unbounded range"""
    num = st.sampled_from([0, 1, 2, 3, -1, 2.5, 10])
    cells = {f'B{r}': draw(num) for r in (1, 2, 3)}
    inputs = [f'S!B{r}' for r in (1, 2, 3)]
    forms = []
    a_forms = ['=B1+B2', '=B2*2', '=B1-B3', '=SUM(B1:B3)', '=IF(B1>B2,B1,B3)']
    for r in (1, 2, 3):
        if draw(st.integers(0, 3)):
            body = draw(st.sampled_from(a_forms))
            if r > 1 and f'A{r - 1}' in cells and draw(st.booleans()):
                body += f'+A{r - 1}'
            cells[f'A{r}'] = body
            forms.append(f'S!A{r}')
        elif draw(st.booleans()):
            cells[f'A{r}'] = draw(num)
            inputs.append(f'S!A{r}')
    if not forms:
        cells['A2'] = '=B1+B2'
        forms.append('S!A2')
        if 'S!A2' in inputs:
            inputs.remove('S!A2')
    readers = {
        'C4': draw(st.sampled_from(['=SUM(A:A)+B1', '=SUM(S!A:A)',
                                    '=MAX(A:A)-B2', '=COUNT(A:A)'])),
        'D4': draw(st.sampled_from(['=COUNT(A:B)', '=SUM(A:B)', '=MIN(A:B)'])),
        'C5': draw(st.sampled_from(['=SUM(1:2)', '=MAX(2:3)', '=SUM(1:1)'])),
        'D5': '=C4+1',
        'C6': '=B3*2',
        'D6': draw(st.sampled_from(['=D4+C5', '=C6+1', '=SUM(A1:A3)'])),
    }
    for coord in ('C4', 'D4', 'C5', 'D5', 'C6', 'D6'):
        if coord in ('C4', 'C6') or draw(st.integers(0, 3)):
            cells[coord] = readers[coord]
            forms.append(f'S!{coord}')
    if 'C4' not in cells:
        cells.pop('D5', None)
        forms = [f for f in forms if f != 'S!D5']
    return dict(sheets={wbspec.INSHEET: {'A1': 1}, 'S': cells}, arrays=[],
                names={}, active='S', inputs=inputs, formulas=forms,
                ranges=['S!A:A'])


def shards(tier, seed):
    out = [dict(kind='cycle')]
    for k in range(2):
        out.append(dict(kind='columns', seed=seed * 1000 + 100 + k,
                        n=12 if tier == 'quick' else 700))
    for k in range(13):
        out.append(dict(kind='hyp', seed=seed * 1000 + k,
                        n=12 if tier == 'quick' else 700))
    return out


def run_shard(shard, rec):
    if shard['kind'] == 'cycle':
        for kind in ('call1', 'call2', 'call12'):
            check_cycle(rec, kind, 0)
        check_unloadable(rec)
        check_trim_with_failure(rec)
        return
    # fault sites are enumerated per spec: every formula cell x every kind
    strategy = st.tuples(
        column_specs() if shard['kind'] == 'columns'
        else wbspec.specs(max_formulas=7, with_computed=True),
        st.booleans(), steps_strategy())

    def body(c):
        spec, iterative, steps = c
        sites = range(len(spec['formulas']))
        for site in sites:
            for kind in KINDS:
                res = check_case(rec, spec, site, kind, iterative, steps)
                if res and not rec.is_known(res[0]):
                    return res
        return None
    # (no Hypothesis shrinking: one example is ~50 fault cases; the smallest
    # failing fault case per class is kept by the recorder instead)
    hyp.search(rec, strategy, body, shard['n'], shard['seed'], max_rounds=2,
               shrink=False)
    rec.exhaustive.append('every formula cell x every fault kind of each '
                          'sampled workbook')


def replay(case, rec):
    if isinstance(case, dict) and case.get('kind_') == 'trim-failure':
        check_trim_with_failure(rec)
        return
    if isinstance(case, dict) and case.get('kind_') == 'unloadable':
        check_unloadable(rec)
        return
    if isinstance(case, dict) and case.get('cycle'):
        check_cycle(rec, case['kind_'], 0)
        return
    if isinstance(case, list):
        spec, iterative, steps = case
        for site in range(len(spec['formulas'])):
            for kind in KINDS:
                check_case(rec, spec, site, kind, iterative,
                           [tuple(s) for s in steps])
        return
    check_case(rec, case['spec'], case['site'], case['kind'],
               case['iterative'], [tuple(s) for s in case['steps']])
