"""C05 - a cell has one value, however and in whatever order it is reached.

Oracle: differential against a fresh model evaluated cell by cell in rank
order; every access path must yield the same element, in every order of
first evaluation, and repeated evaluation must be stable."""

import itertools

from hypothesis import strategies as st

from vlib import hyp, models, wbspec
from vlib.xl import TempDir, exc_key

ID = 'C05'
LEVEL = 'exploration'
TECHNIQUE = ('enumeration of all first-evaluation orders (<=6 formula '
             'cells: all n!) and Hypothesis-sampled orders for larger '
             'workbooks x access paths (cell, address objects, enclosing '
             'rectangles, unbounded row/column forms, list/tuple/generator, '
             'sheet-less address), differential against a fresh model '
             'evaluated in rank order'
             '; fixed workbooks with context-sensitive cells and an Excel table evaluated in all orders; order independence across successive models in one interpreter (forward / reversed / alone, fresh interpreter each)')
LEVEL_TEXT = ('Exploration; exhaustive over evaluation orders for small '
              'workbooks, sampled beyond, each access also chosen among ~10 '
              'access paths so cells enter the model through ranges, lists '
              'and clipped unbounded references as well as directly.')
LEVEL_NOTE = ('Trusts a fresh ExcelCompiler evaluated in rank order as the '
              'reference value of every cell.')
RULE = ('case = (workbook spec, configuration in {mem, xlsx with stored '
        'results}, sequence of (cell, access path)); every access is '
        'compared with the fresh rank-order value and repeated; '
        'non-trivial = the workbook has a range over formula cells and the '
        'sequence is not in rank order; distinct = distinct (spec, config, '
        'sequence)')
ASSUMPTIONS = ['acyclic workbooks with written references (wbspec)']
MIN_NONTRIVIAL = {'quick': 800, 'thorough': 10000}

PATHS = ['cell', 'cell', 'addrcell', 'addrrange', 'rect', 'rect', 'col',
         'row', 'cols', 'list', 'tuple', 'gen', 'sheetless', 'overrect']


def used_area(spec, sheet):
    rows, cols = [0], [0]
    for coord, v in spec['sheets'].get(sheet, {}).items():
        if v is not None:
            cols.append(ord(coord[0]) - 64)
            rows.append(int(coord[1:]))
    for arr in spec.get('arrays', ()):
        if arr['sheet'] == sheet:
            for corner in arr['ref'].split(':'):
                cols.append(ord(corner[0]) - 64)
                rows.append(int(corner[1:]))
    return max(rows), max(cols)


def element(result, h, w, i, j):
    """pick element (i, j) of an evaluate() result of an h x w range"""
    if h == 1 and w == 1:
        return result
    if h == 1:
        return result[j]
    if w == 1:
        return result[i]
    return result[i][j]


class ShapeError(Exception):
    pass


def check_shape(res, h, w):
    if h == 1 and w == 1:
        good = not isinstance(res, tuple)
    elif h == 1 or w == 1:
        good = isinstance(res, tuple) and len(res) == max(h, w) and \
            not any(isinstance(x, tuple) for x in res)
    else:
        good = isinstance(res, tuple) and len(res) == h and all(
            isinstance(r, tuple) and len(r) == w for r in res)
    if not good:
        raise ShapeError(f'expected a {h}x{w} result, got {res!r}')


def access(model, spec, addr, path, k):
    """evaluate `addr` through `path`; returns its value"""
    from pycel.excelutil import AddressCell, AddressRange
    sheet, coord = addr.rsplit('!', 1)
    col, row = ord(coord[0]) - 64, int(coord[1:])
    max_row, max_col = used_area(spec, sheet)
    qs = wbspec.q(sheet)
    if path == 'cell':
        return model.evaluate(addr), 'cell'
    if path == 'addrcell':
        return model.evaluate(AddressCell(addr)), 'addrcell'
    if path == 'addrrange':
        return model.evaluate(AddressRange(addr)), 'addrrange'
    if path == 'sheetless':
        if sheet != spec.get('active'):
            return model.evaluate(addr), 'cell'
        return model.evaluate(coord), 'sheetless'
    if path in ('list', 'tuple', 'gen'):
        others = [a for a in spec['formulas'] if a != addr][:2]
        seq = others[:k % 3] + [addr] + others[k % 3:]
        arg = {'list': list, 'tuple': tuple,
               'gen': lambda s: (x for x in s)}[path](seq)
        res = model.evaluate(arg)
        return res[seq.index(addr)], path
    if path == 'rect':
        r1 = max(1, row - (k % 2))
        r2 = min(max_row, row + ((k // 2) % 2))
        c1 = max(1, col - ((k // 4) % 2))
        c2 = min(max_col, col + ((k // 8) % 2))
        if (r1, c1) == (r2, c2):
            if c2 < 4:
                c2 += 1
            else:
                c1 -= 1
        text = f'{sheet}!{chr(64 + c1)}{r1}:{chr(64 + c2)}{r2}'
        res = model.evaluate(text)
        return element(res, r2 - r1 + 1, c2 - c1 + 1, row - r1, col - c1), \
            'rect'
    if path == 'overrect':
        # a rectangle that may reach past the used area of the sheet
        text = f'{sheet}!{coord}:{chr(64 + col + 2)}{row + 1}'
        res = model.evaluate(text)
        return res[0][0], 'overrect'
    # unbounded forms must be clipped to the used area of the *workbook*
    # (max_row x max_col), whatever was evaluated before
    if path == 'col':
        res = model.evaluate(f'{sheet}!{coord[0]}:{coord[0]}')
        check_shape(res, max_row, 1)
        return element(res, max_row, 1, row - 1, 0), 'col'
    if path == 'row':
        res = model.evaluate(f'{sheet}!{row}:{row}')
        check_shape(res, 1, max_col)
        return element(res, 1, max_col, 0, col - 1), 'row'
    if path == 'cols':
        res = model.evaluate(f'{sheet}!A:{chr(64 + max_col)}')
        check_shape(res, max_row, max_col)
        return element(res, max_row, max_col, row - 1, col - 1), 'cols'
    raise ValueError(path)


def has_range_over_formulas(spec):
    forms = set(spec['formulas'])
    for rng in spec['ranges']:
        sheet, coords = rng.rsplit('!', 1)
        if coords[0].isdigit() or ':' not in coords or \
                not coords.split(':')[0][-1].isdigit():
            continue
        a, b = coords.split(':')
        for c in range(ord(a[0]), ord(b[0]) + 1):
            for r in range(int(a[1:]), int(b[1:]) + 1):
                if f'{sheet}!{chr(c)}{r}' in forms:
                    return True
    return False


def check_case(rec, spec, config, seq, expected=None):
    """seq: list of (formula index, path index, k)"""
    if config == 'xlsx':
        spec = models.normalise_for_file(spec)
    forms = spec['formulas']
    case = dict(spec=spec, config=config, seq=[list(s) for s in seq])
    if expected is None:
        expected = wbspec.fresh_values(spec)
    # every cell of a valid acyclic workbook *has* a value: generated
    # workbooks only use implemented functions on legal arguments, so an
    # exception (instead of an Excel error value) is a violation in itself
    for addr, v in expected.items():
        if isinstance(v, tuple) and v[:1] == ('raises',):
            key = f'cell-has-no-value:{v[1]}:{models.feature_of(spec, addr)}'
            msg = (f'evaluating {addr} in a fresh model raises {v[1]} '
                   f'(formula {spec["sheets"].get(addr.split("!")[0], {}).get(addr.split("!")[1])!r})')
            rec.case(key=(repr(spec['sheets']), 'fresh-raises'),
                     labels=('fresh-raises',))
            rec.fail(key, case, msg)
            return key, msg
    in_rank_order = [s[0] % len(forms) for s in seq] == sorted(
        s[0] % len(forms) for s in seq)
    nontrivial = has_range_over_formulas(spec) and not in_rank_order
    used_paths = set()
    failure = None
    with TempDir() as tmp:
        try:
            model = models.build_model(spec, config, tmp)
        except Exception as exc:
            key = f'build-raises:{config}:{exc_key(exc)}'
            rec.fail(key, case, f'{exc!r}'[:400])
            return key, repr(exc)
        with rec.watch(f'hang:{config}', case, limit=120):
            for fi, pi, k in seq:
                addr = forms[fi % len(forms)]
                path = PATHS[pi % len(PATHS)]
                want = expected[addr]
                for attempt in ('first', 'repeat'):
                    try:
                        got, used = access(model, spec, addr, path, k)
                    except ShapeError as exc:
                        got, used = ('shape', str(exc)), path
                    except Exception as exc:
                        got, used = ('raises', exc_key(exc)), path
                    used_paths.add(used)
                    if not models.same_value(got, want):
                        feature = models.feature_of(spec, addr)
                        kind = got[0] if isinstance(got, tuple) and \
                            got[:1] in (('raises',), ('shape',)) else 'value'
                        failure = (
                            f'{kind}:{config}:{used}:{attempt}:{feature}',
                            f'{addr} reached as {used} ({attempt}) = {got!r}'
                            f', fresh rank-order evaluation gives {want!r}; '
                            f'sequence {seq}')
                        break
                if failure:
                    break
            if not failure:
                # whatever the history, every cell now has its one value
                for addr in forms:
                    got = models.safe_eval(model, addr)
                    if not models.same_value(got, expected[addr]):
                        failure = (
                            f'value:{config}:final:'
                            f'{models.feature_of(spec, addr)}',
                            f'{addr} = {got!r} at the end, fresh gives '
                            f'{expected[addr]!r}; sequence {seq}')
                        break
    rec.case(key=(repr(spec['sheets']), repr(spec['arrays']), config,
                  repr(seq)), nontrivial=nontrivial,
             labels=[f'config:{config}'] + [f'path:{p}' for p in used_paths],
             sample=dict(config=config, seq=[list(s) for s in seq],
                         sheets=spec['sheets'], arrays=spec['arrays']))
    if failure:
        rec.fail(failure[0], case, failure[1])
    return failure


# -- unbounded references clipped to a degenerate used area ------------------

DEGENERATE = [
    # (sheets, address to evaluate, expected)
    ({'S': {'A1': 1, 'A2': 2, 'C1': '=SUM(B:B)+1'}}, 'S!C1', 1),
    ({'S': {'A1': 5, 'C3': '=SUM(2:2)'}}, 'S!C3', 0),
    ({'S': {'A1': 5, 'B1': '=SUM(Q!A:A)'}, 'Q': {'A1': 7}}, 'S!B1', 7),
    ({'S': {'A1': 5, 'B1': '=SUM(Q!1:1)+A1'}, 'Q': {'A1': 7}}, 'S!B1', 12),
    ({'S': {'A1': 5, 'B1': '=SUM(Q!B:B)'}, 'Q': {'A1': 7}}, 'S!B1', 0),
]


def check_degenerate(rec):
    from vlib.xl import compile_spec
    for sheets, addr, want in DEGENERATE:
        case = dict(kind='degenerate', sheets=sheets, addr=addr, want=want)
        rec.case(key=('degenerate', repr(sheets)), nontrivial=True,
                 labels=('degenerate-unbounded',), sample=case)
        try:
            model = compile_spec({'sheets': sheets})
            got = model.evaluate(addr)
            again = model.evaluate(addr)
        except RecursionError as exc:
            rec.fail('unbounded-clipped:one-cell:RecursionError', case,
                     f'{addr} {sheets} raised {exc!r}'[:300])
            continue
        except Exception as exc:
            rec.fail(f'unbounded-clipped:raises:{exc_key(exc)}', case,
                     f'{addr} {sheets} raised {exc!r}'[:300])
            continue
        if not models.same_value(got, want) or not models.same_value(
                again, want):
            rec.fail('unbounded-clipped:value', case,
                     f'{addr} {sheets} = {got!r}/{again!r}, expected {want!r}')


# -- shards -------------------------------------------------------------------

def seq_strategy():
    return st.lists(st.tuples(st.integers(0, 40), st.integers(0, 60),
                              st.integers(0, 15)), min_size=2, max_size=14)


def shards(tier, seed):
    out = [dict(kind='degenerate'), dict(kind='fixed-orders'),
           dict(kind='model-order', seed=seed * 1000 + 90,
                n=24 if tier == 'quick' else 200)]
    for k in range(8):
        out.append(dict(kind='orders', seed=seed * 1000 + 50 + k,
                        n=2 if tier == 'quick' else 40))
    for k in range(8):
        out.append(dict(kind='hyp', seed=seed * 1000 + k,
                        n=120 if tier == 'quick' else 10000))
    return out


def run_shard(shard, rec):
    if shard['kind'] == 'degenerate':
        check_degenerate(rec)
    elif shard['kind'] == 'fixed-orders':
        for spec in FIXED_ORDER_SPECS:
            all_orders(rec, spec)
    elif shard['kind'] == 'model-order':
        from vlib import purity
        specs = []

        def collect(spec):
            specs.append(spec)
            return None
        hyp.search(rec, wbspec.specs(max_formulas=8, with_computed=True),
                   collect, shard['n'],
                   shard['seed'], max_rounds=1, shrink=False)
        # (sorted by size: every workbook follows a smaller one in one order
        # and a larger one in the other)
        specs.sort(key=lambda sp: (len(sp['sheets'][wbspec.SHEET]),
                                   repr(sp['sheets'])))
        purity.model_order_independence(rec, specs, ID)
    elif shard['kind'] == 'hyp':
        strategy = st.tuples(
            wbspec.specs(with_computed=True,
                         focus='context' if shard['seed'] % 2 else None),
            st.sampled_from(['mem', 'mem', 'xlsx']), seq_strategy())
        hyp.search(rec, strategy,
                   lambda c: check_case(rec, c[0], c[1], c[2]),
                   shard['n'], shard['seed'])
    else:
        # all n! orders of first evaluation for small workbooks; the access
        # path of each step is derived from the step so that orders x paths
        # are both covered
        strategy = wbspec.specs(
            max_formulas=5, with_second_sheet=False, with_computed=True,
            focus='context' if shard['seed'] % 2 else None)

        def body(spec):
            return all_orders(rec, spec)
        hyp.search(rec, strategy, body, shard['n'], shard['seed'],
                   shrink=False)
        rec.exhaustive.append('all first-evaluation orders of <=6 formula '
                              'cells for each sampled small workbook')


def all_orders(rec, spec):
    forms = spec['formulas'][:6]
    n = len(forms)
    expected = wbspec.fresh_values(spec)
    sub = dict(spec)
    sub['formulas'] = forms
    for pn, perm in enumerate(itertools.permutations(range(n))):
        seq = [(i, pn + 3 * j, pn + j) for j, i in enumerate(perm)]
        res = check_case(rec, sub, 'mem', seq, expected=expected)
        if res:
            return res
    rec.label('specs-with-all-orders')
    return None


# ordinary cells whose functions are context-sensitive (IFERROR / IFNA / IFS
# over a range), read by a CSE block, by plain formulas and by each other
_THIS_ROW = '=Orders[[#This Row],[price]]*Orders[[#This Row],[qty]]'
FIXED_ORDER_SPECS = [
    # an Excel table with a calculated column: the same formula text in every
    # row, meaning another cell in each (structured references)
    dict(sheets={wbspec.INSHEET: {'B3': 1},
                 'S': {'A1': 'item', 'B1': 'price', 'C1': 'qty', 'D1': 'total',
                       'A2': 'a', 'B2': 10, 'C2': 2, 'A3': 'b', 'B3': 100,
                       'C3': 3, 'A4': 'c', 'B4': 1000, 'C4': 5,
                       'D2': _THIS_ROW, 'D3': _THIS_ROW, 'D4': _THIS_ROW,
                       'F1': '=SUM(D2:D4)', 'F2': '=SUM(Orders[total])',
                       'F3': '=SUM(Orders[price])+MAX(Orders[[qty]:[total]])'}},
         tables=[dict(sheet='S', name='Orders', ref='A1:D4')],
         arrays=[], names={}, active='S',
         inputs=['S!B2', 'S!C2', 'S!B3', 'S!C3', 'S!B4', 'S!C4'],
         formulas=['S!D2', 'S!D3', 'S!D4', 'S!F1', 'S!F2', 'S!F3'],
         ranges=['S!D2:D4', 'S!B2:D4']),
    dict(sheets={wbspec.INSHEET: {'B3': 1},
                 'S': {'A1': 1, 'A2': 2, 'A3': 3,
                       'B1': '=IFERROR(A1:A3,9)', 'B2': '=IFNA(A1:A3,7)',
                       'D1': '=SUM(C1:C3)+B1', 'D2': '=B1+B2'}},
         arrays=[dict(sheet='S', ref='C1:C3', formula='=A1:A3*B1+B2')],
         names={}, active='S', inputs=['S!A1', 'S!A2', 'S!A3'],
         formulas=['S!B1', 'S!B2', 'S!C1', 'S!C2', 'S!D1', 'S!D2'],
         ranges=['S!C1:C3', 'S!A1:A3']),
    dict(sheets={wbspec.INSHEET: {'B3': 1},
                 'S': {'A1': -1, 'B1': 2, 'A2': 0, 'B2': 5,
                       'C1': '=IFS(A1:B2>0,B1,TRUE,A2)',
                       'C2': '=IFERROR(A1:B1/A2,B2)',
                       'D4': '=C1+C2+A3'}},
         arrays=[dict(sheet='S', ref='A3:B3', formula='=A1:B1+C1*C2')],
         names={}, active='S', inputs=['S!A1', 'S!B1', 'S!A2', 'S!B2'],
         formulas=['S!C1', 'S!C2', 'S!A3', 'S!B3', 'S!D4'],
         ranges=['S!A3:B3', 'S!A1:B2']),
]


def replay(case, rec):
    if isinstance(case, dict) and case.get('kind') == 'model-order':
        from vlib import purity
        purity.model_order_independence(rec, case['specs'], ID)
        return
    if isinstance(case, dict) and case.get('kind') == 'degenerate':
        check_degenerate(rec)
        return
    if isinstance(case, dict) and 'sheets' in case and 'seq' not in case:
        all_orders(rec, case)          # a spec found by the all-orders shard
        return
    if isinstance(case, list):
        spec, config, seq = case
    else:
        spec, config, seq = case['spec'], case['config'], case['seq']
    check_case(rec, spec, config, [tuple(s) for s in seq])
