"""C04 - declared precedents cover every cell a formula actually reads.

Oracles: (a) invariant over the read trace observed through the guarded
PYCEL_VERIF hook (reads made through _C_/_R_ while one formula runs): every
address read is a declared precedent or lies inside a declared range on the
same sheet, and the dependency graph has the precedent -> dependant edge
(directly or through the range node), and range nodes depend on every member;
(b) black box: if replacing a constant changes what a fresh compile computes
for a formula, that constant is an ancestor of the formula in dep_graph."""

import re

from hypothesis import strategies as st

from vlib import hyp, models, wbspec
from vlib.xl import compile_spec, exc_key, klass

ID = 'C04'
LEVEL = 'exploration'
TECHNIQUE = ('Hypothesis-generated workbooks and a fixed catalogue of '
             'reference forms x sampled environments; read-trace invariant '
             'through the PYCEL_VERIF hook plus the metamorphic relation '
             '"influence implies ancestor" (perturb each constant, fresh '
             'compile, compare)'
             '; defined name = its definition (equivalence pairs) and bounded twins of unbounded references in the catalogue; the range operator between written references = the written rectangle')
LEVEL_TEXT = ('Exploration: every reference form the property lists (plain, '
              'sheet-qualified, quoted sheet, absolute, range, intersection, '
              'multi-colon, defined name incl. multi-area, unbounded, ROW/'
              'COLUMN, INDEX array and reference forms, lookup ranges, CSE '
              'members) appears in a fixed catalogue evaluated under sampled '
              'environments, and in generated workbooks.')
LEVEL_NOTE = ('The read trace is taken where pycel binds _C_/_R_ into the '
              'formula namespace (hook commit a4e4cf5); reads the compiler '
              'performs itself (binding A:A to its used area) are checked '
              'through the graph edges instead.  OFFSET/INDIRECT are out of '
              'scope (computed references).')
RULE = ('case = (workbook spec or the reference-form catalogue, environment '
        'of constants); all formula cells are evaluated with the hook on, '
        'every read is checked against needed_addresses and dep_graph, then '
        'every constant is perturbed in turn and a fresh compile decides '
        'which formulas it influences; non-trivial = the workbook has a '
        'formula with >= 2 distinct reference forms; distinct = distinct '
        '(spec, environment)')
ASSUMPTIONS = ['written (non-computed) references only']
MIN_NONTRIVIAL = {'quick': 150, 'thorough': 3000}

IN = wbspec.INSHEET
QIN = wbspec.q(IN)
CATALOGUE = {
    'A5': '=B1',
    'B5': '=$B$1+B$2+$B3',
    'C5': f'=S!C1+{QIN}!A1',
    'D5': "='T 2'!A1+1",
    'A6': '=SUM(A1:D3)',
    'B6': '=SUM(S!$A$1:$B$2)',
    'C6': '=SUM(A1:B2 B1:C3)',
    'D6': '=SUM(A2:C2 B1:B3)',
    'A7': '=SUM(A1:B1:C2)',
    # the range operator applied to written references that the tokenizer
    # does not merge into one range (the cells in between are read as well)
    'A14': '=SUM((A1:B1):C2)',
    'B14': '=SUM(B1:(D2))+MAX((A2):C3)',
    'C14': '=COUNT(S!A1:(S!C3))+SUM((A1:B2 B1:C3):D3)',
    'D14': '=SUM((A1:B1,C2:D2))',
    # (one operand computed, inside a written range)
    'A15': '=SUM(A1:OFFSET(A1,1,2))',
    'B7': '=SUM(first_row)',
    'C7': '=one_cell*2',
    'D7': '=SUM(two_areas)',
    # the bounded twins of what the unbounded references below are bound to,
    # built first (the used area of the input sheet is A1:B3)
    'A13': f'=SUM({QIN}!A1:A3)',
    'B13': f'=MAX({QIN}!A1:B3)+COUNT({QIN}!A1:B1)',
    'A8': f'=SUM({QIN}!A:A)',
    'B8': f'=COUNT({QIN}!1:1)+MAX({QIN}!A:B)',
    'C8': '=ROW(C2)+COLUMN(C2)+ROW()+COLUMN()',
    'D8': '=INDEX(A1:D3,2,3)',
    'A9': '=SUM(INDEX(A1:D3,0,2))',
    'B9': '=INDEX(A1:D3,C1,D1)',
    'C9': '=VLOOKUP(A1,A1:D3,3,FALSE)',
    'D9': '=MATCH(B2,B1:B3,0)',
    'A10': '=IF(A1>0,SUM(B1:B3),C1)',
    'B10': '=IFERROR(VLOOKUP(A2,A1:D3,5,FALSE),D1)',
    'C10': '=CHOOSE(1+(A1>0),B1,SUM(C1:C3))',
    'D10': '=SUMPRODUCT((A1:A3>0)*(B1:B3))',
    'A11': '=COUNTIF(A1:D3,">"&A1)+SUMIF(A1:A3,">0",B1:B3)',
    'B11': '=A10+B10&C10',
    'C11': '=SUM(A12:B12)+A12',
    'D11': '=AVERAGE(A5:D5)',
}
CATALOGUE_ARRAY = dict(sheet='S', ref='A12:B12', formula='=A1:B1*C1')


def catalogue_spec(env, in_env):
    cells = {}
    for i, coord in enumerate(f'{c}{r}' for r in (1, 2, 3) for c in 'ABCD'):
        cells[coord] = env[i % len(env)]
    cells.update(CATALOGUE)
    insheet = {'A1': in_env[0], 'A2': in_env[1], 'A3': in_env[2],
               'B1': in_env[3], 'B2': in_env[4], 'B3': 1}
    # defined names used from another sheet, next to their definitions
    t2 = {'A1': '=S!A1*2',
          'A2': '=SUM(first_row)', 'B2': '=SUM(S!$A$1:$D$1)',
          'A3': '=one_cell*3', 'B3': '=S!$A$1*3',
          'A4': '=SUM(two_areas)',
          'B4': f'=SUM(S!$A$1:$B$1,{QIN}!$A$1:$A$2)',
          'A5': '=MAX(first_row)&one_cell', 'B5': '=MAX(S!A1:D1)&S!A1'}
    cells['C13'] = '=SUM(S!$A$1:$D$1)'
    cells['D13'] = '=S!$A$1*2'
    formulas = [f'S!{c}' for c in CATALOGUE] + ['S!A12', 'S!B12'] + \
        ['S!C13', 'S!D13'] + [f'T 2!{c}' for c in t2]
    return dict(
        computed=['S!A15'],
        equiv=[('T 2!A2', 'T 2!B2'), ('T 2!A3', 'T 2!B3'),
               ('T 2!A4', 'T 2!B4'), ('T 2!A5', 'T 2!B5'),
               ('S!B7', 'S!C13'), ('S!C7', 'S!D13'), ('S!A14', 'S!A7'), ('S!A15', 'S!A7')],
        sheets={IN: insheet, 'S': cells, 'T 2': t2},
        arrays=[CATALOGUE_ARRAY],
        names={'one_cell': 'S!$A$1', 'first_row': 'S!$A$1:$D$1',
               'two_areas': f'S!$A$1:$B$1,{QIN}!$A$1:$A$2'},
        active='S',
        inputs=[f'S!{c}{r}' for r in (1, 2, 3) for c in 'ABCD'] +
               [f'{IN}!A1', f'{IN}!A2', f'{IN}!A3', f'{IN}!B1', f'{IN}!B2'],
        formulas=formulas, ranges=[])


FORMS = [('absolute', r'\$'), ('sheet', r'!'), ('range', r'[A-D]\$?\d+:'),
         ('unbounded', r'!(A:A|B:B|1:1|A:B|2:3)'),
         ('name', r'one_cell|first_row|two_areas'),
         ('intersection', r'\d [A-D]\$?\d'), ('multicolon', r':[A-D]\d+:'),
         ('range-operator', r'\):|:\('), ('union', r'\d,[A-D]\d'),
         ('rowcol', r'ROW\(|COLUMN\('), ('index', r'INDEX\('),
         ('lookup', r'VLOOKUP\(|MATCH\('), ('cond', r'IF\(|CHOOSE\(|IFERROR\(')]


def forms_of(formula):
    return {name for name, rx in FORMS if re.search(rx, formula)}


class Trace:
    def __init__(self):
        self.reads = []      # (dependant address, kind, address read)

    def __call__(self, event, excel_formula, address):
        if event in ('read_cell', 'read_range'):
            cell = excel_formula.cell
            dep = cell.address.address if cell is not None else None
            self.reads.append((dep, event, str(address)))


def contains(range_addr, cell_addr):
    from pycel.excelutil import AddressRange
    r, c = AddressRange(range_addr), AddressRange(cell_addr)
    if r.sheet != c.sheet:
        return False
    if r.is_unbounded_range:
        sr, er = r.start.row or 1, r.end.row or 10 ** 7
        sc, ec = r.start.col_idx or 1, r.end.col_idx or 10 ** 5
    else:
        sr, er, sc, ec = r.start.row, r.end.row, r.start.col_idx, r.end.col_idx
    return (sr <= c.start.row and c.end.row <= er and
            sc <= c.start.col_idx and c.end.col_idx <= ec)


def check_spec(rec, spec, label):
    import networkx as nx
    import pycel.excelformula as xf
    from pycel.excelcompiler import _CellRange
    case = dict(spec=spec)
    formulas_text = {}
    for a in spec['formulas']:
        sheet, coord = a.rsplit('!', 1)
        f = spec['sheets'].get(sheet, {}).get(coord)
        if isinstance(f, str):
            formulas_text[a] = f
    multi = any(len(forms_of(f)) >= 2 for f in formulas_text.values())
    rec.case(key=(repr(spec['sheets']), repr(spec['arrays'])),
             nontrivial=multi, labels=(label,) + tuple(
                 f'form:{x}' for f in formulas_text.values()
                 for x in forms_of(f)),
             sample=dict(sheets=spec['sheets'], arrays=spec['arrays'],
                         names=spec['names']))
    trace = Trace()
    failure = None
    try:
        model = compile_spec(wbspec.build_spec(spec))
        xf.verif_hook = trace
        try:
            values = {a: models.safe_eval(model, a) for a in spec['formulas']}
        finally:
            xf.verif_hook = None
    except Exception as exc:
        rec.fail(f'raises:{exc_key(exc)}', case, repr(exc)[:300])
        return f'raises:{exc_key(exc)}', repr(exc)
    rec.label('reads-observed', len(trace.reads))

    # (a) trace invariant
    graph = model.dep_graph
    for dep, kind, addr in trace.reads:
        if dep is None or dep not in model.cell_map:
            continue
        dcell = model.cell_map[dep]
        if dcell.formula is None or dep in spec.get('computed', ()):
            # (computed references are outside the property; such cells are
            # only compared with their written equivalents below)
            continue
        declared = [d.address for d in dcell.formula.needed_addresses]
        formula_text = formulas_text.get(dep, str(dcell.formula))
        feature = '+'.join(sorted(forms_of(formula_text))) or 'plain'
        covered = addr in declared or any(
            ':' in d and contains(d, addr) for d in declared)
        if not covered:
            failure = (f'undeclared-read:{feature}',
                       f'{dep} ({formula_text}) read {addr} which is not '
                       f'among its declared precedents {declared}')
            break
        preds = set(graph.predecessors(dcell)) if dcell in graph else set()
        rcell = model.cell_map.get(addr)
        edge = rcell is not None and rcell in preds
        if not edge and rcell is not None:
            for p in preds:
                if p.address.is_range and p in graph and \
                        rcell in set(graph.predecessors(p)):
                    edge = True
                    break
                if p.address.is_range and p in graph:
                    # unbounded reference -> bounded range -> member
                    for pp in graph.predecessors(p):
                        if pp.address.is_range and pp in graph and \
                                rcell in set(graph.predecessors(pp)):
                            edge = True
        if not edge and rcell is not None and ':' in addr and \
                not rcell.address.is_unbounded_range:
            # a computed sub-range (intersection): every one of its cells
            # must reach the dependant through a declared range node
            range_preds = [p for p in preds if p.address.is_range and
                           p in graph]
            members = [a.address for row in rcell.address.resolve_range
                       for a in row]
            edge = all(any(model.cell_map.get(m) in set(graph.predecessors(p))
                           for p in range_preds) for m in members)
        if not edge:
            failure = (f'missing-edge:{feature}',
                       f'{dep} ({formula_text}) read {addr} but dep_graph '
                       f'has no edge from it (directly or through a range '
                       f'node); predecessors '
                       f'{sorted(str(p.address) for p in preds)}')
            break
    if not failure:
        for addr, cell in model.cell_map.items():
            if isinstance(cell, _CellRange) and cell.formula is None and \
                    cell in graph:
                members = {a.address for row in cell.addresses for a in row}
                have = {p.address.address for p in graph.predecessors(cell)}
                if not members <= have:
                    failure = ('range-node-missing-member-edge',
                               f'range node {addr} lacks edges from '
                               f'{sorted(members - have)}')
                    break

    # (b) influence implies ancestor
    if not failure:
        base = values
        for z in spec['inputs']:
            sheet, coord = z.rsplit('!', 1)
            old = spec['sheets'][sheet].get(coord)
            for new in ((old + 17.5) if klass(old) == 'number' else 17.5,
                        'zq'):
                pert = wbspec.fresh_values(wbspec.with_inputs(spec, {z: new}))
                for x, y in spec.get('equiv', ()):
                    # a formula written with a defined name and the same
                    # formula written with the name's definition
                    if not models.same_value(pert[x], pert[y]):
                        failure = (
                            'equivalent-forms-differ',
                            f'with {z} = {new!r}: {x} ({formulas_text.get(x)})'
                            f' = {pert[x]!r} but {y} '
                            f'({formulas_text.get(y)}) = {pert[y]!r}')
                        break
                if failure:
                    break
                for x, v in pert.items():
                    if models.same_value(v, base[x]) or \
                            x in spec.get('computed', ()):
                        continue
                    rec.label('influences-observed')
                    xcell = model.cell_map.get(x)
                    zcell = model.cell_map.get(z)
                    anc = nx.ancestors(graph, xcell) if xcell in graph \
                        else set()
                    if zcell is None or zcell not in anc:
                        f = formulas_text.get(x, '')
                        feature = '+'.join(sorted(forms_of(f))) or (
                            models.feature_of(spec, x))
                        failure = (
                            f'influence-without-ancestor:{feature}',
                            f'changing {z} from {old!r} to {new!r} changes '
                            f'{x} ({f}) from {base[x]!r} to {v!r} but {z} '
                            f'is not an ancestor of {x} in dep_graph')
                        break
                if failure:
                    break
            if failure:
                break
    if failure:
        rec.fail(failure[0], case, failure[1])
    return failure


ENV_VALUES = [0, 1, 2, 3, 5, -1, 2.5, 10, 4, 7, 'a', 'b', True, None, '1']


def shards(tier, seed):
    out = []
    for k in range(8):
        out.append(dict(kind='catalogue', seed=seed * 1000 + k,
                        n=12 if tier == 'quick' else 900))
    for k in range(8):
        out.append(dict(kind='specs', seed=seed * 1000 + 100 + k,
                        n=25 if tier == 'quick' else 1800))
    return out


def run_shard(shard, rec):
    if shard['kind'] == 'catalogue':
        strategy = st.tuples(
            st.lists(st.one_of(st.sampled_from(ENV_VALUES),
                               st.integers(1, 4), st.integers(-9, 9)),
                     min_size=12, max_size=12),
            st.lists(st.one_of(st.sampled_from([0, 1, 2, 5, None]),
                               st.integers(-9, 9)), min_size=5, max_size=5))
        hyp.search(rec, strategy,
                   lambda c: check_spec(rec, catalogue_spec(c[0], c[1]),
                                        'catalogue'),
                   shard['n'], shard['seed'])
    else:
        hyp.search(rec, wbspec.specs(),
                   lambda spec: check_spec(rec, spec, 'generated'),
                   shard['n'], shard['seed'])


def replay(case, rec):
    if isinstance(case, list):
        if len(case) == 2 and isinstance(case[0], list):
            check_spec(rec, catalogue_spec(case[0], case[1]), 'catalogue')
            return
    spec = case['spec'] if isinstance(case, dict) and 'spec' in case else case
    check_spec(rec, spec, 'replay')
