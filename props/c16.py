"""C16 - lookup functions agree with a linear-scan definition.

Oracle: linear scan (exact match) / validity predicate (sorted match: any
position holding the extreme admissible value of the lookup value's type),
INDEX at MATCH's position for V/H/LOOKUP, transpose duality, out-of-range
indices."""

import re

from hypothesis import strategies as st

from vlib import hyp
from vlib.xl import ERRSET, FastEnv, compile_spec, exc_key, klass, same

ID = 'C16'
LEVEL = 'exploration'
TECHNIQUE = ('Hypothesis-generated vectors/tables with duplicates, mixed '
             'types and blanks, sorted in Excel order by construction for '
             'the approximate modes; linear-scan reference, validity '
             'predicate for ties, differential VLOOKUP = INDEX(MATCH) and '
             'transpose duality'
             '; LOOKUP array form = VLOOKUP of the last column; order-independence probe')
LEVEL_TEXT = ('Exploration over sampled vectors (<=8) and tables (<=6x4) x '
              'lookup values drawn from the array, near misses and other '
              'types x match types -1,0,1 x every result index from -1 to '
              'size+1, in row and column orientation.')
LEVEL_NOTE = ('Trusts the linear-scan reference in props/c16.py.  Blank '
              'array cells against the lookup values 0, "" and FALSE are not '
              'asserted (type-strict vs blank-as-neutral is not settled by '
              'the statement); approximate modes are only exercised on data '
              'sorted in Excel order, without error cells.')
RULE = ('vector of 1..8 values / table up to 6x4 from a mixed pool with '
        'duplicates (sorted ascending/descending in Excel order for match '
        'type 1/-1, blanks at either end) x lookup value x match type x '
        'result index; non-trivial = the array holds >= 2 classes or the '
        'hit value is duplicated; distinct = distinct (array, value, mode, '
        'index)')
ASSUMPTIONS = ['text in sorted arrays is ASCII so that its order is '
               'unambiguous']
MIN_NONTRIVIAL = {'quick': 1500, 'thorough': 30000}

NUMS = [-5, -1, 0, 1, 2, 2.5, 3, 10, 100]
TEXTS = ['a', 'A', 'ab', 'abc', 'b', 'B', 'bcd', 'x', 'apple', 'Apple', '1',
         '10', 'a*', 'a?', 'z', 'ab\n', 'a\nb']
LOGICALS = [False, True]
RANK = {'number': 0, 'text': 1, 'logical': 2}
COLS = 'ABCD'
TCOLS = 'HIJKLM'


def key(v):
    k = klass(v)
    return (RANK[k], v.lower() if k == 'text' else v)


def veq(a, b):
    ka, kb = klass(a), klass(b)
    if ka != kb or ka not in RANK:
        return False
    return key(a) == key(b)


def wildcard(pattern):
    out, i, wild = [], 0, False
    while i < len(pattern):
        ch = pattern[i]
        if ch == '~' and i + 1 < len(pattern) and pattern[i + 1] in '*?~':
            out.append(re.escape(pattern[i + 1]))
            wild = True
            i += 2
            continue
        if ch in '*?':
            out.append('.*' if ch == '*' else '.')
            wild = True
        else:
            out.append(re.escape(ch))
        i += 1
    return re.compile('(?:' + ''.join(out) + r')\Z', re.I | re.S) if wild else None


UNASSERTED = object()


def ref_match0(v, arr):
    """first position (1-based) equal to v, '#N/A', or UNASSERTED"""
    rx = wildcard(v) if klass(v) == 'text' else None
    for i, x in enumerate(arr, 1):
        if x is None:
            if v in (0, '', False) and not (
                    isinstance(v, bool) and v is True):
                return UNASSERTED
            continue
        if klass(x) == 'error':
            continue
        if rx is not None:
            if klass(x) == 'text' and rx.match(x):
                return i
        elif veq(x, v):
            return i
    return '#N/A'


def ok_sorted(v, arr, got, ascending):
    """validity predicate for match type 1 (ascending) / -1 (descending)"""
    kv = klass(v)
    same_type = [x for x in arr if klass(x) == kv]
    if ascending:
        adm = [x for x in same_type if key(x) <= key(v)]
        best = max(adm, key=key) if adm else None
    else:
        adm = [x for x in same_type if key(x) >= key(v)]
        best = min(adm, key=key) if adm else None
    if best is None:
        return got == '#N/A', '#N/A'
    if klass(got) != 'number' or isinstance(got, bool) or \
            not (1 <= got <= len(arr)) or int(got) != got:
        return False, f'a position holding {best!r}'
    return veq(arr[int(got) - 1], best), f'a position holding {best!r}'


def arr_class(arr):
    return '+'.join(sorted({klass(x) for x in arr}))


class Ctx:
    def __init__(self, rec, form='fast'):
        self.rec = rec
        self.form = form
        self.env = FastEnv()

    def ev(self, formula, cells):
        if self.form == 'fast':
            return self.env.eval(formula, cells)
        spec = {'sheets': {'S': dict(
            {k: v for k, v in cells.items() if v is not None}, Z9=formula)}}
        return compile_spec(spec).evaluate('S!Z9')

    def call(self, formula, cells):
        try:
            return self.ev(formula, cells), None
        except Exception as exc:
            return None, exc


def check_match(ctx, arr, v, mode, orient):
    """MATCH on a vector; orient 'col' or 'row'"""
    rec = ctx.rec
    n = len(arr)
    if orient == 'col':
        cells = {f'A{i + 1}': x for i, x in enumerate(arr)}
        rng = f'A1:A{n}'
    else:
        cells = {f'{chr(65 + i)}1': x for i, x in enumerate(arr)}
        rng = f'A1:{chr(64 + n)}1'
    cells['P1'] = v
    case = dict(kind='match', arr=list(arr), v=v, mode=mode, orient=orient,
                form=ctx.form)
    ac = arr_class(arr)
    dup = sum(1 for x in arr if veq(x, v)) > 1
    rec.case(key=('match', repr(arr), repr(v), mode, orient, ctx.form),
             nontrivial='+' in ac or dup,
             labels=('MATCH', f'mode:{mode}', f'orient:{orient}',
                     'dup' if dup else 'nodup', f'len:{min(n, 3)}'),
             sample=case)
    got, exc = ctx.call(f'=MATCH(P1,{rng},{mode})', cells)
    tag = f'mode{mode}:{klass(v)}|{ac}' + (':len1' if n == 1 else '')
    if exc is not None:
        rec.fail(f'MATCH:raises:{exc_key(exc)}:mode{mode}' +
                 (':len1' if n == 1 else ''), case,
                 f'MATCH({v!r},{arr},{mode}) raised {exc!r}'[:400])
        return None
    if mode == 0:
        want = ref_match0(v, arr)
        if want is UNASSERTED:
            rec.label('unasserted:blank-vs-neutral')
        elif not (got == want and klass(got) == klass(want)):
            rec.fail(f'MATCH:value:{tag}', case,
                     f'MATCH({v!r},{arr},0) [{orient}] = {got!r}, expected '
                     f'{want!r}')
    else:
        good, want = ok_sorted(v, [x for x in arr], got, mode == 1)
        if not good:
            rec.fail(f'MATCH:value:{tag}', case,
                     f'MATCH({v!r},{arr},{mode}) [{orient}] = {got!r}, '
                     f'expected {want}')
    if mode == 1:
        got2, exc2 = ctx.call(f'=MATCH(P1,{rng})', cells)
        if exc2 is not None or got2 != got:
            rec.fail('MATCH:default-mode', case,
                     f'MATCH default = {got2!r}/{exc2!r}, explicit 1 = '
                     f'{got!r}')
    return got


def table_cells(table, cols=COLS, r0=1):
    return {f'{cols[j]}{r0 + i}': x for i, row in enumerate(table)
            for j, x in enumerate(row)}


def check_table(ctx, table, v, approx, idx):
    """VLOOKUP on table, HLOOKUP on its transpose, INDEX/MATCH, LOOKUP"""
    rec = ctx.rec
    h, w = len(table), len(table[0])
    cells = table_cells(table)
    tr = [[table[i][j] for i in range(h)] for j in range(w)]
    cells.update(table_cells(tr, TCOLS, 11))
    cells.update({'P1': v, 'P2': idx, 'P3': approx})
    T = f'A1:{COLS[w - 1]}{h}'
    TT = f'H11:{TCOLS[h - 1]}{10 + w}'
    col1 = f'A1:A{h}'
    first = [row[0] for row in table]
    case = dict(kind='table', table=[list(r) for r in table], v=v,
                approx=approx, idx=idx, form=ctx.form)
    ac = arr_class(first)
    dup = sum(1 for x in first if veq(x, v)) > 1
    rec.case(key=('table', repr(table), repr(v), approx, idx, ctx.form),
             nontrivial='+' in ac or dup or not (1 <= idx <= w),
             labels=('TABLE', 'approx' if approx else 'exact',
                     'idx:' + ('in' if 1 <= idx <= w else 'out')),
             sample=case)
    mode = 1 if approx else 0
    tag = f'{"approx" if approx else "exact"}:' \
          f'{"in" if 1 <= idx <= w else "low" if idx < 1 else "high"}' + \
          (':h1' if h == 1 else '') + (':w1' if w == 1 else '')
    vl, e1 = ctx.call(f'=VLOOKUP(P1,{T},P2,P3)', cells)
    hl, e2 = ctx.call(f'=HLOOKUP(P1,{TT},P2,P3)', cells)
    im, e3 = ctx.call(f'=INDEX({T},MATCH(P1,{col1},{mode}),P2)', cells)
    for name, exc in (('VLOOKUP', e1), ('HLOOKUP', e2), ('INDEX-MATCH', e3)):
        if exc is not None:
            rec.fail(f'{name}:raises:{exc_key(exc)}:{tag}', case,
                     f'{name}({v!r}, {table}, {idx}, {approx}) raised '
                     f'{exc!r}'[:400])
    if e1 is not None or e2 is not None:
        return
    # transpose duality
    if not same(vl, hl) and not (vl is None and hl is None):
        rec.fail(f'law:vlookup=hlookup-transposed:{tag}', case,
                 f'VLOOKUP = {vl!r} but HLOOKUP on the transpose = {hl!r}')
    # expected through the reference
    if idx < 1:
        want = '#VALUE!'
    elif idx > w:
        want = '#REF!'
    else:
        if approx:
            kv = klass(v)
            adm = [x for x in first if klass(x) == kv and key(x) <= key(v)]
            want = ('any-row-holding', max(adm, key=key)) if adm else '#N/A'
        else:
            pos = ref_match0(v, first)
            want = pos if pos in ('#N/A', UNASSERTED) else table[pos - 1][idx - 1]
    if want is UNASSERTED:
        rec.label('unasserted:blank-vs-neutral')
    elif isinstance(want, tuple):
        rows = [r for r in table if veq(r[0], want[1])]
        if not any(same(vl, r[idx - 1]) or (r[idx - 1] is None and vl in (None, 0))
                   for r in rows):
            rec.fail(f'VLOOKUP:value:{tag}', case,
                     f'VLOOKUP({v!r},{table},{idx},TRUE) = {vl!r}, expected '
                     f'the cell of a row starting with {want[1]!r}')
    elif not (same(vl, want) or (want is None and vl in (None, 0))):
        rec.fail(f'VLOOKUP:value:{tag}', case,
                 f'VLOOKUP({v!r},{table},{idx},{approx}) = {vl!r}, expected '
                 f'{want!r}')
    # INDEX at MATCH's position (only meaningful for in-range indices: INDEX
    # treats 0 as "whole column")
    if e3 is None and 1 <= idx <= w and h > 1:
        if not (same(vl, im) or (vl in (None, 0) and im in (None, 0))):
            rec.fail(f'law:vlookup=index-match:{tag}', case,
                     f'VLOOKUP = {vl!r} but INDEX(MATCH) = {im!r}')
    # LOOKUP vector form = INDEX(result, MATCH(v, vec, 1))
    if approx and 1 <= idx <= w and h > 1:
        res = f'{COLS[idx - 1]}1:{COLS[idx - 1]}{h}'
        lk, e4 = ctx.call(f'=LOOKUP(P1,{col1},{res})', cells)
        if e4 is not None:
            rec.fail(f'LOOKUP:raises:{exc_key(e4)}:{tag}', case,
                     f'LOOKUP raised {e4!r}'[:300])
        elif not (same(lk, vl) or (lk in (None, 0) and vl in (None, 0))):
            rec.fail(f'law:lookup=vlookup:{tag}', case,
                     f'LOOKUP = {lk!r} but VLOOKUP(..., TRUE) = {vl!r}')
    # LOOKUP array form: a square or tall table is searched down its first
    # column and answered from its last column, a wide one along its first
    # row and answered from its last row (only asserted where the searched
    # vector is the sorted one)
    if approx and h > 1:
        last, e5 = ctx.call(f'=VLOOKUP(P1,{T},{w},TRUE)', cells)
        forms = []
        if h >= w:
            forms.append(('tall' if h > w else 'square', T))
        if h > w:
            forms.append(('wide', TT))
        for shape, ref in forms if e5 is None else ():
            la, e6 = ctx.call(f'=LOOKUP(P1,{ref})', cells)
            rec.label(f'LOOKUP-array:{shape}')
            if e6 is not None:
                rec.fail(f'LOOKUP:raises:{exc_key(e6)}:array-{shape}', case,
                         f'LOOKUP({v!r}, {shape} table) raised {e6!r}'[:300])
            elif not (same(la, last) or (la in (None, 0) and
                                         last in (None, 0))):
                rec.fail(f'law:lookup-array=vlookup-last:{shape}', case,
                         f'LOOKUP({v!r},{ref}) = {la!r} on the {shape} form '
                         f'of {table}, VLOOKUP(..,{w},TRUE) = {last!r}')
    # INDEX out of range
    for r, c, wantx in ((h + 1, 1, '#REF!'), (1, w + 1, '#REF!'),
                        (-1, 1, '#VALUE!'), (1, -1, '#VALUE!')):
        got, exc = ctx.call(f'=INDEX({T},{r},{c})', cells)
        if exc is not None:
            rec.fail(f'INDEX:raises:{exc_key(exc)}', case,
                     f'INDEX({T},{r},{c}) raised {exc!r}'[:300])
        elif got != wantx and h > 1 and w > 1:
            rec.fail(f'INDEX:out-of-range:{wantx}', case,
                     f'INDEX({h}x{w} table,{r},{c}) = {got!r}, expected '
                     f'{wantx}')
    if h > 1 and w > 1:
        r, c = (h + idx) % h + 1, (w + idx) % w + 1
        got, exc = ctx.call(f'=INDEX({T},{r},{c})', cells)
        want = table[r - 1][c - 1]
        if exc is not None or not (same(got, want) or
                                   (want is None and got in (None, 0))):
            rec.fail('INDEX:value', case,
                     f'INDEX(table,{r},{c}) = {got!r}/{exc!r}, expected '
                     f'{want!r}')


# -- generators -------------------------------------------------------------

def pool():
    return st.one_of(st.sampled_from(NUMS), st.sampled_from(TEXTS),
                     st.sampled_from(NUMS), st.sampled_from(LOGICALS),
                     st.integers(-20, 20))


def sorted_vec(draw_vals, descending, lead_blank, trail_blank):
    vals = sorted(draw_vals, key=key, reverse=descending)
    return [None] * lead_blank + vals + [None] * trail_blank


def vector_case():
    # length-1 vectors are the open finding C16-1x1-range (fixed shard)
    base = st.lists(pool(), min_size=2, max_size=8)

    def build(vals, mode, lead, trail, extra, pick, orient):
        vals = list(vals)
        if mode == 0:
            arr = vals + ([None] if trail else [])
            if lead:
                arr.insert(len(arr) // 2, None)
            if extra == 1:
                arr.insert(0, '#N/A')
        else:
            arr = sorted_vec(vals, mode == -1, 0, trail)
        arr = arr[:8]
        return arr, pick, mode, orient
    return st.builds(build, base, st.sampled_from([0, 0, 1, -1]),
                     st.integers(0, 1), st.integers(0, 1),
                     st.integers(0, 3), st.integers(0, 60),
                     st.sampled_from(['col', 'row']))


def lookup_value(arr, pick):
    """value from the array, a near miss, or another type"""
    real = [x for x in arr if klass(x) in RANK]
    if pick < 20 and real:
        return real[pick % len(real)]
    if pick < 38 and real:
        x = real[pick % len(real)]
        if klass(x) == 'number':
            return x + (0.5 if pick % 2 else -0.5)
        if klass(x) == 'text':
            return [x.upper(), x + 'a', x[:1] + '*', '?' + x[1:],
                    x[:1] + '*?', x + '*?', x[:1] + '?*', '*' + '?' * len(x),
                    '*?' + x[1:]][(pick - 20) % 9]
        return not x
    return [0, 1.5, 'zz', '', 'A', True, False, 1000, -1000, 'a*', '1',
            1, 'a*?', '*??', 'a*?c', '*?*'][(pick - 38) % 16]


def table_case():
    def build(rows, w, approx, pick, idx, fill):
        firsts = [r for r in rows]
        if approx:
            firsts = sorted(firsts, key=key)
        h = len(firsts)
        table = []
        for i, f in enumerate(firsts):
            row = [f] + [fill[(i * 3 + j) % len(fill)] for j in range(w - 1)]
            table.append(row)
        return table, pick, bool(approx), idx - 1
    return st.builds(build, st.lists(pool(), min_size=2, max_size=6),
                     st.integers(1, 4), st.integers(0, 1), st.integers(0, 60),
                     st.integers(0, 6),
                     st.lists(st.one_of(pool(), st.none(),
                                        st.sampled_from(['#DIV/0!'])),
                              min_size=3, max_size=12))


PURITY_TEMPLATES = ['=MATCH(C1,A1:B1,0)',
                    '=MATCH(C1,A1:B1,1)',
                    '=MATCH(C1,A1:B1,-1)',
                    '=HLOOKUP(C1,A1:B1,1,FALSE)',
                    '=LOOKUP(C1,A1:B1)',
                    '=INDEX(A1:B1,1,C1)']


def shards(tier, seed):
    out = [dict(kind='fixed')]
    n_h = 10 if tier == 'quick' else 16
    for k in range(n_h):
        out.append(dict(kind='hyp', seed=seed * 1000 + k,
                        n=1500 if tier == 'quick' else 150000))
    out.append(dict(kind='workbook', seed=seed * 1000 + 99,
                    n=80 if tier == 'quick' else 4000))
    out.append(dict(kind='purity'))
    return out


def _body(rec, ctx):
    def body(case):
        before = dict(rec.fail_counts)
        if case[0] == 'vec':
            arr, pick, mode, orient = case[1]
            check_match(ctx, arr, lookup_value(arr, pick), mode, orient)
        else:
            table, pick, approx, idx = case[1]
            first = [r[0] for r in table]
            check_table(ctx, table, lookup_value(first, pick), approx, idx)
        for k, v in rec.fail_counts.items():
            if v != before.get(k, 0):
                return k, rec.failures[k][2]
        return None
    return body


def strategy():
    return st.one_of(st.tuples(st.just('vec'), vector_case()),
                     st.tuples(st.just('vec'), vector_case()),
                     st.tuples(st.just('table'), table_case()))


def run_shard(shard, rec):
    if shard['kind'] == 'purity':
        from vlib import purity
        return purity.run(rec, ID, PURITY_TEMPLATES)
    kind = shard['kind']
    if kind == 'fixed':
        ctx = Ctx(rec)
        for orient in ('col', 'row'):
            check_match(ctx, [1, 2, 2, 3], 2, 0, orient)
            check_match(ctx, [1, 2, 2, 3], 2, 1, orient)
            check_match(ctx, [3, 2, 2, 1], 2, -1, orient)
            check_match(ctx, ['a', 'B', 'c'], 'b', 0, orient)
            check_match(ctx, [1, '1', True], '1', 0, orient)
            check_match(ctx, [1, 5, 'a', 'z', False, True], 'm', 1, orient)
            check_match(ctx, ['apple', 'Apple pie', 5], 'app*', 0, orient)
            check_match(ctx, [7], 7, 0, orient)
        check_table(ctx, [[1, 'x', 'y'], [2, 'p', 'q'], [3, 'r', 's']],
                    2, False, 2)
        check_table(ctx, [[1, 'x', 'y'], [2, 'p', 'q'], [3, 'r', 's']],
                    2.5, True, 3)
        check_table(ctx, [[1, 'x'], [2, 'p']], 2, False, 0)
        check_table(ctx, [[1, 'x'], [2, 'p']], 2, False, 3)
    elif kind == 'hyp':
        ctx = Ctx(rec)
        hyp.search(rec, strategy(), _body(rec, ctx), shard['n'],
                   shard['seed'])
    elif kind == 'workbook':
        ctx = Ctx(rec, form='workbook')
        hyp.search(rec, strategy(), _body(rec, ctx), shard['n'],
                   shard['seed'])


def replay(case, rec):
    from vlib import purity
    if purity.is_case(case):
        return purity.replay(rec, ID, case)
    if isinstance(case, list):
        _body(rec, Ctx(rec))(case)
        return
    ctx = Ctx(rec, form=case.get('form', 'fast'))
    if case['kind'] == 'match':
        check_match(ctx, case['arr'], case['v'], case['mode'],
                    case['orient'])
    else:
        check_table(ctx, case['table'], case['v'], case['approx'],
                    case['idx'])
