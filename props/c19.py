"""C19 - rounding family: decimal-exact, half away from zero, correct brackets.

Oracle: `decimal` arithmetic on the shortest decimal rendering of x, plus
bracket / fixed-point / sign laws."""

import math
from decimal import ROUND_DOWN, ROUND_HALF_UP, ROUND_UP, Decimal
from fractions import Fraction

from hypothesis import strategies as st

from vlib import hyp
from vlib.xl import FastEnv, compile_spec, exc_key, klass

ID = 'C19'
LEVEL = 'exploration'
TECHNIQUE = ('Hypothesis-generated decimals k/10^j with exactly constructed '
             'ties and +-1ulp near-ties, plus a deterministic tie grid, '
             'against a decimal.Decimal reference and bracket/fixed-point '
             'laws'
             '; CEILING/FLOOR judged on decimal renderings, _xlfn. spellings; order-independence probe')
LEVEL_TEXT = ('Exploration: a deterministic grid of exact ties for every '
              'digits value -6..6 and a signed significance pool, plus '
              'thousands of sampled decimals/binary floats; ties are built '
              'by construction because random sampling almost never hits '
              'them.')
LEVEL_NOTE = ('Trusts python decimal as the reference for half-away-from-'
              'zero rounding of repr(x). MOD identity and exact fixed points '
              'of CEILING/FLOOR are asserted only where float division is '
              'exact (integers and dyadic fractions); elsewhere a bracket '
              'with 1e-9 relative slack is asserted.')
RULE = ('x = k/10^j (|k|<=10^6, j<=6; ~40% exact ties or +-1ulp near-ties) '
        'and sampled binary floats x digits -6..6 for ROUND/ROUNDUP/'
        'ROUNDDOWN/TRUNC; x x significance from a signed pool for CEILING/'
        'FLOOR(.MATH/.PRECISE), MOD; INT/EVEN/ODD on x; non-trivial = a tie '
        'or near-tie, a negative x, negative digits or a negative/'
        'fractional significance; distinct = distinct (function, arguments)')
ASSUMPTIONS = [
    'numbers of moderate magnitude (|x| <= 1e6 * 10)',
    'float artefacts of n/d for decimal divisors (d = 0.1) are not failures',
]
MIN_NONTRIVIAL = {'quick': 5000, 'thorough': 50000}

SIGS = [1, 2, 3, 5, 10, 0.5, 0.25, 0.1, 0.05, 1.5, 7, 100,
        -1, -2, -0.5, -0.1, -3, 0]
ROUNDERS = {'ROUND': ROUND_HALF_UP, 'ROUNDUP': ROUND_UP,
            'ROUNDDOWN': ROUND_DOWN, 'TRUNC': ROUND_DOWN}


def dyadic(v):
    """True if v is an integer or a dyadic fraction with few bits"""
    f = Fraction(v)
    return f.denominator & (f.denominator - 1) == 0 and f.denominator <= 1024


def ref_round(x, d, mode):
    q = Decimal(1).scaleb(-d)
    return float(Decimal(repr(float(x))).quantize(q, rounding=mode))


def is_num(v):
    return klass(v) == 'number'


def close(a, b, rel=1e-9, abs_tol=1e-12):
    return math.isclose(a, b, rel_tol=rel, abs_tol=abs_tol)


class Ctx:
    def __init__(self, rec, form='fast'):
        self.rec = rec
        self.form = form
        self.env = FastEnv()

    def ev(self, formula, cells):
        if self.form == 'fast':
            return self.env.eval(formula, cells)
        spec = {'sheets': {'S': dict(cells, Z1=formula)}}
        return compile_spec(spec).evaluate('S!Z1')

    def call(self, func, args):
        formula = f'={func}(' + ','.join(
            'ABCD'[i] + '1' for i in range(len(args))) + ')'
        cells = {'ABCD'[i] + '1': a for i, a in enumerate(args)}
        try:
            return self.ev(formula, cells), None
        except Exception as exc:
            return None, exc


def tie_kind(x, d):
    """'tie' if x's shortest rendering is exactly halfway at digit d"""
    D = Decimal(repr(float(x)))
    q = Decimal(1).scaleb(-d)
    rem = (D / q) % 1
    if abs(rem) == Decimal('0.5'):
        return 'tie'
    if abs(abs(rem) - Decimal('0.5')) < Decimal('1e-9'):
        return 'near-tie'
    return 'plain'


def check_round(ctx, x, d):
    rec = ctx.rec
    tk = tie_kind(x, d)
    nontrivial = tk != 'plain' or x < 0 or d < 0
    results = {}
    for func, mode in ROUNDERS.items():
        case = dict(func=func, args=[x, d], form=ctx.form)
        rec.case(key=(func, repr(x), d, ctx.form), nontrivial=nontrivial,
                 labels=(f'func:{func}', f'tie:{tk}',
                         'digits:neg' if d < 0 else 'digits:nonneg'),
                 sample=case)
        got, exc = ctx.call(func, (x, d))
        cls = f'{tk}:{"negdigits" if d < 0 else "digits"}:' \
              f'{"neg" if x < 0 else "pos"}'
        if exc is not None:
            rec.fail(f'{func}:raises:{exc_key(exc)}:{cls}', case,
                     f'{func}({x!r},{d}) raised {exc!r}'[:300])
            continue
        if not is_num(got):
            rec.fail(f'{func}:type:{cls}', case,
                     f'{func}({x!r},{d}) = {got!r}')
            continue
        exp = ref_round(x, d, mode)
        results[func] = got
        if not close(got, exp, rel=1e-12, abs_tol=0.0):
            rec.fail(f'{func}:value:{cls}', case,
                     f'{func}({x!r},{d}) = {got!r}, decimal reference '
                     f'{exp!r}')
    if len(results) == 4:
        case = dict(func='ROUND-laws', args=[x, d], form=ctx.form)
        lo, hi = abs(results['ROUNDDOWN']), abs(results['ROUNDUP'])
        if not (lo <= abs(x) * (1 + 1e-15) and abs(x) <= hi * (1 + 1e-15)):
            rec.fail('laws:bracket', case,
                     f'|ROUNDDOWN|={lo} |x|={abs(x)} |ROUNDUP|={hi}')
        if tk == 'plain' and Decimal(repr(float(x))) % Decimal(1).scaleb(
                -d) == 0:
            for f, v in results.items():
                if v != x:
                    rec.fail('laws:fixed-point', case,
                             f'{f}({x!r},{d}) = {v!r} moves an exact multiple')
    # TRUNC(x) with default digits
    if d == 0:
        got, exc = ctx.call('TRUNC', (x,))
        if exc is not None or not is_num(got) or got != math.trunc(x):
            rec.fail('TRUNC:default', dict(func='TRUNC', args=[x],
                                           form=ctx.form),
                     f'TRUNC({x!r}) = {got!r} / {exc!r}')


def check_int_even_odd(ctx, x):
    rec = ctx.rec
    exp = {
        'INT': math.floor(x),
        'EVEN': math.copysign(math.ceil(abs(x) / 2) * 2, x) if x else 0,
        'ODD': (math.copysign(
            (lambda a: a if a % 2 == 1 else a + 1)(math.ceil(abs(x))), x)
            if x else 1),
    }
    for func, want in exp.items():
        case = dict(func=func, args=[x], form=ctx.form)
        rec.case(key=(func, repr(x), ctx.form),
                 nontrivial=x <= 0 or float(x) == int(x),
                 labels=(f'func:{func}',), sample=case)
        got, exc = ctx.call(func, (x,))
        cls = 'neg' if x < 0 else 'zero' if x == 0 else 'pos'
        cls += ':integral' if float(x) == int(x) else ':frac'
        if exc is not None:
            rec.fail(f'{func}:raises:{exc_key(exc)}:{cls}', case, repr(exc))
        elif not is_num(got) or got != want:
            rec.fail(f'{func}:value:{cls}', case,
                     f'{func}({x!r}) = {got!r}, expected {want!r}')


def check_mod(ctx, n, d):
    rec = ctx.rec
    case = dict(func='MOD', args=[n, d], form=ctx.form)
    exact = dyadic(n) and dyadic(d)
    rec.case(key=('MOD', repr(n), repr(d), ctx.form),
             nontrivial=n < 0 or d < 0 or not float(d).is_integer(),
             labels=('func:MOD', 'exact' if exact else 'inexact'),
             sample=case)
    got, exc = ctx.call('MOD', (n, d))
    sgn = 'dneg' if d < 0 else 'dzero' if d == 0 else 'dpos'
    cls = f'{sgn}:{"nneg" if n < 0 else "npos"}'
    if exc is not None:
        rec.fail(f'MOD:raises:{exc_key(exc)}:{cls}', case, repr(exc))
        return
    if d == 0:
        if got != '#DIV/0!':
            rec.fail('MOD:value:dzero', case, f'MOD({n},0) = {got!r}')
        return
    if not is_num(got):
        rec.fail(f'MOD:type:{cls}', case, f'MOD({n!r},{d!r}) = {got!r}')
        return
    if got != 0 and (got < 0) != (d < 0):
        rec.fail(f'MOD:sign:{cls}', case, f'MOD({n!r},{d!r}) = {got!r}')
    if abs(got) >= abs(d) * (1 + 1e-12):
        rec.fail(f'MOD:range:{cls}', case, f'MOD({n!r},{d!r}) = {got!r}')
    if exact:
        q, exc = ctx.call('INT', (n / d,))
        want = Fraction(n) - Fraction(d) * math.floor(Fraction(n) / Fraction(d))
        if Fraction(got) != want:
            rec.fail(f'MOD:value:{cls}', case,
                     f'MOD({n!r},{d!r}) = {got!r}, expected {float(want)!r}')
        if exc is None and is_num(q) and d * q + got != n:
            rec.fail(f'MOD:identity:{cls}', case,
                     f'{d}*INT({n}/{d}) + MOD = {d * q + got!r} != {n!r}')


def multiple_of(r, sig):
    if sig == 0:
        return r == 0
    q = r / sig
    return close(q, round(q), rel=1e-9, abs_tol=1e-9)


def check_ceil_floor(ctx, x, sig):
    rec = ctx.rec
    # judged on the shortest decimal renderings of x and of the significance
    # (0.3 IS a multiple of 0.1), like ROUND
    exact = True
    fx = Fraction(Decimal(repr(float(x))))
    fs = Fraction(Decimal(repr(float(sig))))
    nontrivial = x < 0 or sig <= 0 or not float(sig).is_integer()
    cls = (f'x{"neg" if x < 0 else "zero" if x == 0 else "pos"}:'
           f's{"neg" if sig < 0 else "zero" if sig == 0 else "pos"}')

    def expect(func, mode=0):
        """exact expected value as Fraction / error string / None"""
        if func in ('CEILING', 'FLOOR'):
            if sig < 0 < x:
                return '#NUM!'
            if x == 0:
                return Fraction(0)
            if sig == 0:
                return Fraction(0) if func == 'CEILING' else '#DIV/0!'
            qf = fx / fs
            if func == 'CEILING':
                # x<0<sig: toward zero; both negative: away from zero
                k = math.ceil(qf)
            else:
                k = math.floor(qf)
            return fs * k
        s = abs(fs)
        if s == 0:
            return Fraction(0)
        qf = fx / s
        if func == 'CEILING.PRECISE':
            return s * math.ceil(qf)
        if func == 'FLOOR.PRECISE':
            return s * math.floor(qf)
        if func == 'CEILING.MATH':
            k = math.floor(qf) if (mode and x < 0) else math.ceil(qf)
            return s * k
        if func == 'FLOOR.MATH':
            k = math.ceil(qf) if (mode and x < 0) else math.floor(qf)
            return s * k
        raise AssertionError(func)

    calls = [('CEILING', (x, sig), 0), ('FLOOR', (x, sig), 0),
             ('CEILING.PRECISE', (x, sig), 0), ('FLOOR.PRECISE', (x, sig), 0),
             ('CEILING.MATH', (x, sig), 0), ('FLOOR.MATH', (x, sig), 0),
             ('CEILING.MATH', (x, sig, 1), 1), ('FLOOR.MATH', (x, sig, 1), 1)]
    # the newer functions also in the spelling Excel stores in a file
    calls += [('_xlfn.' + f, a, m) for f, a, m in calls if '.' in f]
    for func, args, mode in calls:
        case = dict(func=func, args=list(args), form=ctx.form)
        rec.case(key=(func, repr(args), ctx.form), nontrivial=nontrivial,
                 labels=(f'func:{func}', 'exact' if exact else 'inexact'),
                 sample=case)
        got, exc = ctx.call(func, args)
        if exc is not None:
            rec.fail(f'{func}:raises:{exc_key(exc)}:{cls}', case,
                     f'{func}{args!r} raised {exc!r}'[:300])
            continue
        want = expect(func.replace('_xlfn.', ''), mode)
        if isinstance(want, str):
            if got != want:
                rec.fail(f'{func}:value:{cls}', case,
                         f'{func}{args!r} = {got!r}, expected {want}')
            continue
        if not is_num(got):
            rec.fail(f'{func}:type:{cls}', case, f'{func}{args!r} = {got!r}')
            continue
        if exact:
            if Fraction(Decimal(repr(float(got)))) != want:
                rec.fail(f'{func}:value:{cls}', case,
                         f'{func}{args!r} = {got!r}, expected {float(want)!r}')
        else:
            step = abs(float(fs)) or 1.0
            # a multiple of the significance, within one step of x on either
            # side of the exact answer (float quotient artefacts tolerated)
            if not multiple_of(got, sig) or \
                    abs(got - float(want)) > step * (1 + 1e-9):
                rec.fail(f'{func}:bracket:{cls}', case,
                         f'{func}{args!r} = {got!r}, exact {float(want)!r}')
    # default significance
    for func in ('CEILING.MATH', 'FLOOR.MATH', 'CEILING.PRECISE',
                 'FLOOR.PRECISE'):
        got, exc = ctx.call(func, (x,))
        want = math.ceil(x) if func.startswith('C') else math.floor(x)
        if exc is not None or not is_num(got) or got != want:
            rec.fail(f'{func}:default', dict(func=func, args=[x],
                                             form=ctx.form),
                     f'{func}({x!r}) = {got!r} / {exc!r}')


# -- generators ---------------------------------------------------------------

def tie_grid():
    """exact ties: (10m+5)/10^(d+1) for every digits value"""
    out = []
    for d in range(-6, 7):
        for m in (0, 1, 2, 7, 12, 24, 25, 99, 104, 1234):
            for sign in (1, -1):
                x = Decimal(sign * (10 * m + 5)).scaleb(-(d + 1))
                if abs(x) <= Decimal(10) ** 9:
                    out.append((float(x), d))
    return out


def decimals():
    return st.builds(lambda k, j: float(Decimal(k).scaleb(-j)),
                     st.integers(-10 ** 6, 10 ** 6), st.integers(0, 6))


def xd_pairs():
    digits = st.integers(-6, 6)
    tie = st.builds(
        lambda m, d, sign, bump: (
            (lambda x: math.nextafter(x, math.inf * bump) if bump else x)(
                float(Decimal(sign * (10 * m + 5)).scaleb(-(d + 1)))), d),
        st.integers(0, 99999), digits, st.sampled_from([1, -1]),
        st.sampled_from([0, 0, 1, -1]))
    plain = st.tuples(decimals(), digits)
    binary = st.tuples(st.floats(-1e6, 1e6, allow_nan=False), digits)
    return st.one_of(tie, tie, plain, plain, binary)


PURITY_TEMPLATES = ['=ROUND(A1,B1)',
                    '=ROUNDUP(A1,B1)',
                    '=ROUNDDOWN(A1,B1)',
                    '=TRUNC(A1,B1)',
                    '=TRUNC(A1)',
                    '=INT(A1)',
                    '=MROUND(A1,B1)',
                    '=CEILING(A1,B1)',
                    '=FLOOR(A1,B1)',
                    '=EVEN(A1)',
                    '=ODD(A1)',
                    '=MOD(A1,B1)']


def shards(tier, seed):
    out = [dict(kind='grid'), dict(kind='sig-grid'), dict(kind='workbook')]
    n_h = 8 if tier == 'quick' else 16
    for k in range(n_h):
        out.append(dict(kind='hyp', seed=seed * 1000 + k,
                        n=1500 if tier == 'quick' else 125000))
    out.append(dict(kind='purity'))
    return out


XS = [0, 1, 2, 3, 4, 5, 0.5, 1.5, 2.5, 3.5, 0.25, 2.75, 7, 10, 24.3, 6.7,
      0.7, 0.3, 1.1, 25, 15, 0.29, 1.005, 2.675, 1e6, 123456.789]


def run_shard(shard, rec):
    if shard['kind'] == 'purity':
        from vlib import purity
        return purity.run(rec, ID, PURITY_TEMPLATES)
    kind = shard['kind']
    ctx = Ctx(rec)
    if kind == 'grid':
        for x, d in tie_grid():
            check_round(ctx, x, d)
        for x in XS:
            for s in (1, -1):
                for d in range(-6, 7):
                    check_round(ctx, s * x, d)
                check_int_even_odd(ctx, s * x)
        for n in range(-12, 13):
            check_int_even_odd(ctx, n)
            check_int_even_odd(ctx, n + 0.5)
        rec.exhaustive.append('tie grid x digits -6..6')
    elif kind == 'sig-grid':
        for x in XS:
            for s in (1, -1):
                for sig in SIGS:
                    check_ceil_floor(ctx, s * x, sig)
                    check_mod(ctx, s * x, sig)
        rec.exhaustive.append('x pool x signed significance pool')
    elif kind == 'workbook':
        w = Ctx(rec, form='workbook')
        for x, d in tie_grid()[::9]:
            check_round(w, x, d)
        for x in (2.5, -2.5, 0.7, 7):
            for sig in (2, -2, 0.1, 0):
                check_ceil_floor(w, x, sig)
                check_mod(w, x, sig)
            check_int_even_odd(w, x)
    elif kind == 'hyp':
        sigs = st.one_of(st.sampled_from(SIGS),
                         st.builds(lambda k, j: k / 2 ** j,
                                   st.integers(-40, 40), st.integers(0, 4)),
                         st.builds(lambda k: k / 10, st.integers(-30, 30)))
        strategy = st.one_of(
            st.tuples(st.just('round'), xd_pairs()),
            st.tuples(st.just('round'), xd_pairs()),
            st.tuples(st.just('cf'), st.tuples(
                st.one_of(decimals(), st.integers(-1000, 1000),
                          st.builds(lambda k: k / 8,
                                    st.integers(-800, 800))), sigs)),
            st.tuples(st.just('ieo'), st.tuples(
                st.one_of(decimals(), st.integers(-1000, 1000)),
                st.just(0))),
        )

        def body(case):
            before = dict(rec.fail_counts)
            a, b = case[1]
            if case[0] == 'round':
                check_round(ctx, a, b)
            elif case[0] == 'cf':
                check_ceil_floor(ctx, a, b)
                check_mod(ctx, a, b)
            else:
                check_int_even_odd(ctx, a)
            for k, v in rec.fail_counts.items():
                if v != before.get(k, 0):
                    return k, rec.failures[k][2]
            return None
        hyp.search(rec, strategy, body, shard['n'], shard['seed'])


def replay(case, rec):
    from vlib import purity
    if purity.is_case(case):
        return purity.replay(rec, ID, case)
    if isinstance(case, list):
        ctx = Ctx(rec)
        a, b = case[1]
        if case[0] == 'round':
            check_round(ctx, a, b)
        elif case[0] == 'cf':
            check_ceil_floor(ctx, a, b)
            check_mod(ctx, a, b)
        else:
            check_int_even_odd(ctx, a)
        return
    ctx = Ctx(rec, form=case.get('form', 'fast'))
    func, args = case['func'], case['args']
    if func in ROUNDERS or func == 'ROUND-laws':
        check_round(ctx, args[0], args[1] if len(args) > 1 else 0)
    elif func in ('INT', 'EVEN', 'ODD'):
        check_int_even_odd(ctx, args[0])
    elif func == 'MOD':
        check_mod(ctx, args[0], args[1])
    else:
        check_ceil_floor(ctx, args[0], args[1] if len(args) > 1 else 1)
