"""C17 - date serial numbers form Excel's 1900 calendar.

Oracle: an independent model of the 1900 date system built on
datetime.date (proleptic Gregorian) with the two documented anomalies
(serial 0 = 1900-01-00, serial 60 = 1900-02-29)."""

import datetime as dt
import math

from hypothesis import strategies as st

from vlib import hyp
from vlib.xl import FastEnv, compile_spec, exc_key, klass

ID = 'C17'
LEVEL = 'exploration'
TECHNIQUE = ('exhaustive sweep of all serial days (thorough; strided plus '
             'all boundaries in quick) and of every second of a day, '
             'exhaustive (m, d) carry grid, Hypothesis-sampled shifts and '
             'pairs, against a datetime-based model of the 1900 date system'
             '; every month of the calendar walked forwards and backwards, carry seconds x fractions x days, fractional arguments; order-independence probe')
LEVEL_TEXT = ('Exploration, exhaustive over the serial-day domain in the '
              'thorough tier (2 958 466 days) and over all 86 400 seconds; '
              'DATE carrying is enumerated over m, d in -40..60 for boundary '
              'years; EDATE/EOMONTH/YEARFRAC are sampled.')
LEVEL_NOTE = ('Trusts datetime.date and the small calendar model in '
              'props/c17.py; arguments are integers (Excel truncates '
              'fractions, not asserted here).')
RULE = ('serial n -> YEAR/MONTH/DAY/WEEKDAY/DATE round trip for every n '
        '(stride 37 + boundaries in quick); DATE(y,m,d) for boundary years x '
        'm,d in -40..60; EOMONTH/EDATE for sampled (n, shift in -1200..1200); '
        'YEARFRAC symmetry for sampled pairs x basis 0..4; HOUR/MINUTE/'
        'SECOND for every second of day (plus +0.4 s / +0.6 s offsets); out-of-range arguments; '
        'non-trivial = n <= 61, a month/year boundary day, a carried month '
        'or day, a result out of range, or a time at a minute/hour boundary; '
        'distinct = distinct (function, arguments)')
ASSUMPTIONS = ['integer year/month/day/shift arguments',
               'YEARFRAC is only checked for symmetry and totality']
MIN_NONTRIVIAL = {'quick': 5000, 'thorough': 50000}

MAX_SERIAL = 2958465
EPOCH = dt.date(1899, 12, 30)


def parts(n):
    """(y, m, d) of serial n in the 1900 date system"""
    if n == 0:
        return 1900, 1, 0
    if n == 60:
        return 1900, 2, 29
    d = EPOCH + dt.timedelta(days=n + (1 if n < 60 else 0))
    return d.year, d.month, d.day


def serial(y, m, d):
    """serial of a valid Excel calendar date"""
    if (y, m, d) == (1900, 2, 29):
        return 60
    if (y, m, d) == (1900, 1, 0):
        return 0
    n = (dt.date(y, m, d) - EPOCH).days
    return n - 1 if n <= 60 else n


def first_of_month(y, m):
    """serial of day 1 of month m (any integer) of year y; None if the
    normalised year leaves 1900..9999"""
    idx = y * 12 + (m - 1)
    yy, mm = divmod(idx, 12)
    if not (1900 <= yy <= 9999):
        return None, yy
    return serial(yy, mm + 1, 1), yy


def model_date(y, m, d):
    if not (0 <= y <= 9999):
        return '#NUM!'
    if y < 1900:
        y += 1900
    first, yy = first_of_month(y, m)
    if first is None:
        # normalised month lies outside 1900..9999: the day offset could
        # still land inside; Excel's behaviour there is not in the statement
        return 'OUT'
    n = first + d - 1
    return n if 0 <= n <= MAX_SERIAL else '#NUM!'


def idx_of(y, m):
    return y * 12 + (m - 1)


def days_in_month(y, m):
    if (y, m) == (1900, 2):
        return 29
    if m == 12:
        return 31
    return (dt.date(y, m + 1, 1) - dt.date(y, m, 1)).days


def model_eomonth(n, k):
    y, m, _ = parts(n)
    yy, mm = divmod(idx_of(y, m + k), 12)
    if not (1900 <= yy <= 9999):
        return '#NUM!'
    return serial(yy, mm + 1, 1) + days_in_month(yy, mm + 1) - 1


def model_edate(n, k):
    y, m, d = parts(n)
    idx = idx_of(y, m + k)
    yy, mm = divmod(idx, 12)
    if not (1900 <= yy <= 9999):
        return '#NUM!'
    mm += 1
    if d == 0:
        return 'UNCLEAR'
    dd = min(d, days_in_month(yy, mm))
    return serial(yy, mm, dd)


class Ctx:
    def __init__(self, rec, form='fast'):
        self.rec = rec
        self.form = form
        self.env = FastEnv()
        self.cells = {}

    def ev(self, formula, **cells):
        if self.form == 'fast':
            return self.env.eval(formula, cells)
        spec = {'sheets': {'S': dict(cells, Z1=formula)}}
        return compile_spec(spec).evaluate('S!Z1')

    def call(self, formula, **cells):
        try:
            return self.ev(formula, **cells), None
        except Exception as exc:
            return None, exc


def is_int(v, want):
    return klass(v) == 'number' and not isinstance(v, bool) and v == want


def check_serial(ctx, n, record=True):
    rec = ctx.rec
    y, m, d = parts(n)
    nontrivial = n <= 61 or d in (1, 28, 29, 30, 31) or n >= MAX_SERIAL - 1
    case = dict(kind='serial', n=n, form=ctx.form)
    if record:
        rec.case(key=('serial', n, ctx.form), nontrivial=nontrivial,
                 labels=('serial', 'n<=61' if n <= 61 else 'n>61'),
                 sample=case)
    region = ('n0' if n == 0 else 'n60' if n == 60 else
              'pre1900leap' if n < 60 else 'max' if n >= MAX_SERIAL
              else 'normal')
    for func, want in (('YEAR', y), ('MONTH', m), ('DAY', d),
                       ('WEEKDAY', (n - 1) % 7 + 1)):
        got, exc = ctx.call(f'={func}(A1)', A1=n)
        if exc is not None:
            rec.fail(f'{func}:raises:{exc_key(exc)}:{region}', case,
                     f'{func}({n}) raised {exc!r}'[:300])
        elif not is_int(got, want):
            rec.fail(f'{func}:value:{region}', case,
                     f'{func}({n}) = {got!r}, expected {want}')
    if n > 60:
        real = (EPOCH + dt.timedelta(days=n))
        wd = (real.weekday() + 1) % 7 + 1
        if wd != (n - 1) % 7 + 1:
            raise AssertionError('model weekday')
    got, exc = ctx.call('=DATE(YEAR(A1),MONTH(A1),DAY(A1))', A1=n)
    if exc is not None:
        rec.fail(f'roundtrip:raises:{exc_key(exc)}:{region}', case,
                 f'DATE(YEAR,MONTH,DAY) of {n} raised {exc!r}'[:300])
    elif not is_int(got, n):
        rec.fail(f'roundtrip:value:{region}', case,
                 f'DATE(YEAR({n}),MONTH({n}),DAY({n})) = {got!r}')
    if n + 7 <= MAX_SERIAL:
        a, e1 = ctx.call('=WEEKDAY(A1+7)-WEEKDAY(A1)', A1=n)
        if e1 is not None or a != 0:
            rec.fail(f'WEEKDAY:period:{region}', case,
                     f'WEEKDAY({n}+7)-WEEKDAY({n}) = {a!r} {e1!r}')


def check_date(ctx, y, m, d):
    rec = ctx.rec
    exp = model_date(y, m, d)
    carried = not (1 <= m <= 12) or not (1 <= d <= 28)
    case = dict(kind='date', y=y, m=m, d=d, form=ctx.form)
    rec.case(key=('date', y, m, d, ctx.form),
             nontrivial=carried or exp == '#NUM!',
             labels=('DATE', 'carried' if carried else 'plain'), sample=case)
    cls = ('m-low' if m < 1 else 'm-high' if m > 12 else 'm-ok') + ':' + \
        ('d-low' if d < 1 else 'd-high' if d > 28 else 'd-ok')
    got, exc = ctx.call('=DATE(A1,B1,C1)', A1=y, B1=m, C1=d)
    if exc is not None:
        rec.fail(f'DATE:raises:{exc_key(exc)}:{cls}', case,
                 f'DATE({y},{m},{d}) raised {exc!r}'[:300])
        return
    if exp == 'OUT':
        if got != '#NUM!' and not (klass(got) == 'number' and
                                   0 <= got <= MAX_SERIAL):
            rec.fail(f'DATE:value:edge:{cls}', case,
                     f'DATE({y},{m},{d}) = {got!r}')
        return
    if exp == '#NUM!':
        if got != '#NUM!':
            rec.fail(f'DATE:value:out-of-range:{cls}', case,
                     f'DATE({y},{m},{d}) = {got!r}, expected #NUM!')
    elif not is_int(got, exp):
        rec.fail(f'DATE:value:{cls}', case,
                 f'DATE({y},{m},{d}) = {got!r}, expected {exp} '
                 f'{parts(exp)}')


def check_shift(ctx, n, k):
    rec = ctx.rec
    case = dict(kind='shift', n=n, k=k, form=ctx.form)
    y, m, d = parts(n)
    eo = model_eomonth(n, k)
    ed = model_edate(n, k)
    clamp = isinstance(ed, int) and parts(ed)[2] != d
    rec.case(key=('shift', n, k, ctx.form),
             nontrivial=clamp or eo == '#NUM!' or k < 0 or d >= 28,
             labels=('shift', 'clamp' if clamp else 'noclamp'), sample=case)
    cls = ('out' if eo == '#NUM!' else 'in') + \
        (':clamp' if clamp else '') + (':neg' if k < 0 else '')
    got, exc = ctx.call('=EOMONTH(A1,B1)', A1=n, B1=k)
    if exc is not None:
        rec.fail(f'EOMONTH:raises:{exc_key(exc)}:{cls}', case,
                 f'EOMONTH({n},{k}) raised {exc!r}'[:300])
    elif eo == '#NUM!':
        if got != '#NUM!':
            rec.fail('EOMONTH:value:out-of-range', case,
                     f'EOMONTH({n},{k}) = {got!r}, expected #NUM!')
    elif not is_int(got, eo):
        rec.fail(f'EOMONTH:value:{cls}', case,
                 f'EOMONTH({n} {parts(n)},{k}) = {got!r}, expected {eo} '
                 f'{parts(eo)}')
    elif eo < MAX_SERIAL and parts(eo + 1)[2] != 1:
        raise AssertionError('model eomonth')
    got, exc = ctx.call('=EDATE(A1,B1)', A1=n, B1=k)
    if exc is not None:
        rec.fail(f'EDATE:raises:{exc_key(exc)}:{cls}', case,
                 f'EDATE({n},{k}) raised {exc!r}'[:300])
    elif ed == 'UNCLEAR':
        pass
    elif ed == '#NUM!':
        if got != '#NUM!':
            rec.fail('EDATE:value:out-of-range', case,
                     f'EDATE({n},{k}) = {got!r}, expected #NUM!')
    elif not is_int(got, ed):
        rec.fail(f'EDATE:value:{cls}', case,
                 f'EDATE({n} {parts(n)},{k}) = {got!r} '
                 f'{parts(got) if klass(got) == "number" and 0 <= got <= MAX_SERIAL else ""}'
                 f', expected {ed} {parts(ed)}')


def check_time(ctx, s, day=0, frac=0.0):
    """s whole seconds (+ frac in {0, .4, .6}): nearest-second decomposition"""
    rec = ctx.rec
    whole = (s + (1 if frac > 0.5 else 0)) % 86400
    h, rem = divmod(whole, 3600)
    mi, se = divmod(rem, 60)
    t = day + (s + frac) / 86400
    case = dict(kind='time', s=s, day=day, frac=frac, form=ctx.form)
    rec.case(key=('time', s, day, frac, ctx.form),
             nontrivial=se in (0, 59) or day > 0 or frac > 0,
             labels=('time', f'frac:{frac}'), sample=case)
    for func, want in (('HOUR', h), ('MINUTE', mi), ('SECOND', se)):
        got, exc = ctx.call(f'={func}(A1)', A1=t)
        cls = (':day' if day else '') + (f':frac{frac}' if frac else '')
        if exc is not None:
            rec.fail(f'{func}:raises:{exc_key(exc)}', case,
                     f'{func}({t!r}) raised {exc!r}'[:300])
        elif not is_int(got, want):
            rec.fail(f'{func}:value' + cls, case,
                     f'{func}({t!r}) [{s}+{frac} s = {h}:{mi}:{se}] = '
                     f'{got!r}')


def check_yearfrac(ctx, a, b, basis):
    rec = ctx.rec
    case = dict(kind='yearfrac', a=a, b=b, basis=basis, form=ctx.form)
    rec.case(key=('yf', a, b, basis, ctx.form), nontrivial=a != b,
             labels=('YEARFRAC', f'basis:{basis}'), sample=case)
    r1, e1 = ctx.call('=YEARFRAC(A1,B1,C1)', A1=a, B1=b, C1=basis)
    r2, e2 = ctx.call('=YEARFRAC(A1,B1,C1)', A1=b, B1=a, C1=basis)
    if e1 is not None or e2 is not None:
        rec.fail(f'YEARFRAC:raises:{exc_key(e1 or e2)}:basis{basis}', case,
                 f'YEARFRAC({a},{b},{basis}) raised {(e1 or e2)!r}'[:300])
    elif klass(r1) != 'number' or r1 != r2 or r1 < 0:
        rec.fail(f'YEARFRAC:symmetry:basis{basis}', case,
                 f'YEARFRAC({a},{b},{basis}) = {r1!r}, swapped {r2!r}')


def check_out_of_range(ctx):
    rec = ctx.rec
    for func in ('YEAR', 'MONTH', 'DAY', 'WEEKDAY'):
        for n in (-1, -0.5, MAX_SERIAL + 1, MAX_SERIAL + 1000, 1e7, -1e7):
            case = dict(kind='oor', func=func, n=n, form=ctx.form)
            rec.case(key=('oor', func, n), nontrivial=True,
                     labels=('out-of-range',), sample=case)
            got, exc = ctx.call(f'={func}(A1)', A1=n)
            if exc is not None:
                rec.fail(f'{func}:raises:{exc_key(exc)}:out-of-range', case,
                         f'{func}({n}) raised {exc!r}'[:300])
            elif n < 0 and got != '#NUM!':
                rec.fail(f'{func}:value:negative', case,
                         f'{func}({n}) = {got!r}')
            elif func != 'WEEKDAY' and n > MAX_SERIAL and got != '#NUM!':
                rec.fail(f'{func}:value:beyond-max', case,
                         f'{func}({n}) = {got!r}, expected #NUM!')
    for func in ('HOUR', 'MINUTE', 'SECOND'):
        for n in (-0.25, MAX_SERIAL + 1, MAX_SERIAL + 1.5, 3000000.25):
            got, exc = ctx.call(f'={func}(A1)', A1=n)
            rec.case(key=('oor-time', func, n), nontrivial=True,
                     labels=('out-of-range',),
                     sample=dict(kind='oor', func=func, n=n))
            if exc is not None or got != '#NUM!':
                rec.fail(f'{func}:out-of-range', dict(kind='oor', func=func,
                                                      n=n),
                         f'{func}({n}) = {got!r} {exc!r}')
    # a date with a time of day, a fraction of a month / year / day: the
    # fraction is dropped ("shifts by whole months"), never an exception
    for n in (0, 1, 59, 60, 61, 100, 44000, MAX_SERIAL):
        for frac in (0.25, 0.5, 0.999):
            for k in (0, 1, -1, 13):
                for func, model in (('EDATE', model_edate),
                                    ('EOMONTH', model_eomonth)):
                    want = model(n, k)
                    if want == 'UNCLEAR':
                        continue
                    for args, what in (((n + frac, k), 'date'),
                                       ((n, k + frac if k >= 0 else k - frac),
                                        'months')):
                        got, exc = ctx.call(f'={func}(A1,B1)', A1=args[0],
                                            B1=args[1])
                        case = dict(kind='oor', func=func, n=list(args))
                        rec.case(key=('frac', func, args), nontrivial=True,
                                 labels=('fractional-argument',), sample=case)
                        if exc is not None:
                            rec.fail(f'{func}:raises:{exc_key(exc)}:fraction',
                                     case, f'{func}{args} raised {exc!r}'[:300])
                        elif got != want and not is_int(got, want):
                            rec.fail(f'{func}:value:fraction-of-{what}', case,
                                     f'{func}{args} = {got!r}, {func}({n},{k})'
                                     f' = {want!r}')
    # YEARFRAC around the fictitious leap day and with times of day: symmetric,
    # never negative, the time of day does not count
    for a in list(range(0, 64)) + [365, 366, 367, 425, 426, 44000]:
        for b in (a, a + 1, a + 2, 59, 60, 61, a + 365, a + 366):
            for basis in range(5):
                check_yearfrac(ctx, a, b, basis)
    for a, b in ((100.2, 100.7), (100.7, 100.2), (60.5, 61.25), (0.5, 400),
                 (44000.9, 44000.1), (59.5, 60.5), (0.25, 0.75),
                 (1.5, 366.25), (2958464.5, 2958465.9)):
        for basis in range(5):
            check_yearfrac(ctx, a, b, basis)
            whole, e0 = ctx.call('=YEARFRAC(A1,B1,C1)', A1=math.floor(a),
                                 B1=math.floor(b), C1=basis)
            frac, e1 = ctx.call('=YEARFRAC(A1,B1,C1)', A1=a, B1=b, C1=basis)
            if e0 is None and e1 is None and whole != frac:
                rec.fail(f'YEARFRAC:time-of-day:basis{basis}',
                         dict(kind='yearfrac', a=a, b=b, basis=basis),
                         f'YEARFRAC({a},{b},{basis}) = {frac!r} but '
                         f'YEARFRAC({math.floor(a)},{math.floor(b)},{basis})'
                         f' = {whole!r}')
    for y, m, d in ((2000, 1, 1), (1900, 2, 28), (1999, 12, 31), (2024, 2, 29)):
        want = model_date(y, m, d)
        for dy, dm, dd in ((0.9, 0, 0), (0, 0.9, 0), (0, 0, 0.9), (0.5, 0.5, 0.5)):
            got, exc = ctx.call('=DATE(A1,B1,C1)', A1=y + dy, B1=m + dm,
                                C1=d + dd)
            case = dict(kind='oor', func='DATE', n=[y + dy, m + dm, d + dd])
            rec.case(key=('frac', 'DATE', y + dy, m + dm, d + dd),
                     nontrivial=True, labels=('fractional-argument',),
                     sample=case)
            if exc is not None or not is_int(got, want):
                rec.fail('DATE:fraction', case,
                         f'DATE({y + dy},{m + dm},{d + dd}) = {got!r} {exc!r}, '
                         f'DATE({y},{m},{d}) = {want}')


BOUNDARY_SERIALS = sorted(set(
    list(range(0, 800)) + list(range(MAX_SERIAL - 800, MAX_SERIAL + 1)) +
    [serial(y, mm, dd) + off for y in (1900, 1904, 1999, 2000, 2001, 2100,
                                       2400, 9999)
     for mm, dd in ((1, 1), (2, 28), (3, 1), (12, 31)) for off in (-1, 0, 1)
     if 0 <= serial(y, mm, dd) + off <= MAX_SERIAL]))
YEARS = [0, 1, 4, 99, 100, 1899, 1900, 1901, 1904, 1999, 2000, 2001, 2023,
         2024, 2100, 2400, 9998, 9999]


PURITY_TEMPLATES = ['=YEAR(A1)',
                    '=MONTH(A1)',
                    '=DAY(A1)',
                    '=DATE(A1,B1,1)',
                    '=DATE(2000,A1,B1)',
                    '=EDATE(A1,B1)',
                    '=EOMONTH(A1,B1)',
                    '=HOUR(A1)',
                    '=MINUTE(A1)',
                    '=SECOND(A1)',
                    '=WEEKDAY(A1)',
                    '=YEARFRAC(A1,B1)']


def shards(tier, seed):
    out = []
    parts_n = 16
    for k in range(parts_n):
        out.append(dict(kind='sweep', part=k, parts=parts_n,
                        stride=37 if tier == 'quick' else 1))
    out.append(dict(kind='boundaries'))
    for k in range(6):
        out.append(dict(kind='date-grid', years=YEARS[k::6]))
    for k in range(4):
        out.append(dict(kind='time', part=k, parts=4,
                        stride=5 if tier == 'quick' else 1))
    out.append(dict(kind='workbook'))
    # every month of the calendar, walked forwards and backwards (the month
    # a shard meets first must not matter: February 1900 vs 2300, 2700, ...)
    for k in range(4):
        out.append(dict(kind='months', part=k % 2, parts=2, reverse=k >= 2))
    n_h = 4 if tier == 'quick' else 16
    for k in range(n_h):
        out.append(dict(kind='hyp', seed=seed * 1000 + k,
                        n=1500 if tier == 'quick' else 100000))
    out.append(dict(kind='purity'))
    return out


def run_shard(shard, rec):
    if shard['kind'] == 'purity':
        from vlib import purity
        return purity.run(rec, ID, PURITY_TEMPLATES)
    kind = shard['kind']
    ctx = Ctx(rec)
    if kind == 'sweep':
        step = shard['parts'] * shard['stride']
        n_cases = nt = 0
        for n in range(shard['part'] * shard['stride'], MAX_SERIAL + 1, step):
            check_serial(ctx, n, record=False)
            n_cases += 1
            d = parts(n)[2]
            nt += n <= 61 or d in (1, 28, 29, 30, 31)
        rec.bulk(n_cases, nt, 'serial-sweep')
        rec.sample(dict(kind='serial', n=shard['part'] * shard['stride'] + step))
        if shard['stride'] == 1:
            rec.exhaustive.append(
                f'every serial 0..{MAX_SERIAL} (part {shard["part"]})')
    elif kind == 'months':
        ends = [31]                       # 1900-01-31
        while True:
            nxt = model_eomonth(ends[-1], 1)
            if not isinstance(nxt, int):
                break
            ends.append(nxt)
        if shard['reverse']:
            ends.reverse()
        # both walks start with their own end of the calendar, then take
        # their share of the months
        mine = ends[:30] + ends[30:][shard['part']::shard['parts']]
        for n in mine:
            check_shift(ctx, n, 1)
            check_shift(ctx, n, 0)
        rec.exhaustive.append(
            f'EOMONTH/EDATE from the last day of every month 1900-01 .. '
            f'9999-12 ({"backwards" if shard["reverse"] else "forwards"}, '
            f'part {shard["part"]})')
    elif kind == 'boundaries':
        # the seconds around every carry (minute, hour, noon, midnight) with
        # fractions that round down and up, on day 0 and on later days
        for sec in (0, 1, 58, 59, 60, 61, 3598, 3599, 3600, 3601, 43199,
                    43200, 86340, 86398, 86399):
            for day in (0, 1, 59, 60, 61, 44000, MAX_SERIAL - 1):
                for frac in (0.0, 0.4, 0.6):
                    check_time(ctx, sec, day=day, frac=frac)
        for n in BOUNDARY_SERIALS:
            check_serial(ctx, n)
        check_out_of_range(ctx)
        rec.exhaustive.append('first/last 800 serials and year boundaries')
    elif kind == 'date-grid':
        for y in shard['years']:
            for m in range(-40, 61):
                for d in range(-40, 61):
                    check_date(ctx, y, m, d)
        for y in (-1, 10000, 12000):
            check_date(ctx, y, 1, 1)
        rec.exhaustive.append(f'DATE(y,m,d) m,d in -40..60, years '
                              f'{shard["years"]}')
    elif kind == 'time':
        for s in range(86400)[shard['part']::shard['parts']][::shard['stride']]:
            check_time(ctx, s)
            if s % 97 == 0:
                check_time(ctx, s, day=44000)
            if s % 60 in (0, 58, 59) or s % 7 == 0:
                check_time(ctx, s, frac=0.4)
                check_time(ctx, s, frac=0.6)
        if shard['stride'] == 1:
            rec.exhaustive.append('every second of a day')
    elif kind == 'workbook':
        w = Ctx(rec, form='workbook')
        for n in (0, 1, 59, 60, 61, 36526, MAX_SERIAL):
            check_serial(w, n)
        for args in ((1999, 7, 0), (2000, 14, 31), (1900, 1, 0),
                     (9999, 12, 32), (2001, -3, -5)):
            check_date(w, *args)
        check_shift(w, 36556, 1)
        check_time(w, 86399)
    elif kind == 'hyp':
        serials = st.one_of(st.integers(0, MAX_SERIAL),
                            st.sampled_from(BOUNDARY_SERIALS),
                            st.integers(20000, 60000))
        strategy = st.one_of(
            st.tuples(st.just('shift'), serials,
                      st.integers(-1200, 1200)),
            st.tuples(st.just('shift'), serials, st.integers(-14, 14)),
            st.tuples(st.just('date'), st.tuples(
                st.one_of(st.sampled_from(YEARS), st.integers(0, 9999)),
                st.integers(-40, 60), st.integers(-40, 60))),
            st.tuples(st.just('yf'), st.tuples(serials, serials,
                                               st.integers(0, 4))),
            st.tuples(st.just('serial'), serials),
        )

        def body(case):
            before = dict(rec.fail_counts)
            if case[0] == 'shift':
                check_shift(ctx, case[1], case[2])
            elif case[0] == 'date':
                check_date(ctx, *case[1])
            elif case[0] == 'yf':
                check_yearfrac(ctx, *case[1])
            else:
                check_serial(ctx, case[1])
            for k, v in rec.fail_counts.items():
                if v != before.get(k, 0):
                    return k, rec.failures[k][2]
            return None
        hyp.search(rec, strategy, body, shard['n'], shard['seed'])


def replay(case, rec):
    from vlib import purity
    if purity.is_case(case):
        return purity.replay(rec, ID, case)
    if isinstance(case, list):
        ctx = Ctx(rec)
        if case[0] == 'shift':
            check_shift(ctx, case[1], case[2])
        elif case[0] == 'date':
            check_date(ctx, *case[1])
        elif case[0] == 'yf':
            check_yearfrac(ctx, *case[1])
        else:
            check_serial(ctx, case[1])
        return
    ctx = Ctx(rec, form=case.get('form', 'fast'))
    kind = case['kind']
    if kind == 'serial':
        check_serial(ctx, case['n'])
    elif kind == 'date':
        check_date(ctx, case['y'], case['m'], case['d'])
    elif kind == 'shift':
        check_shift(ctx, case['n'], case['k'])
    elif kind == 'time':
        check_time(ctx, case['s'], case.get('day', 0), case.get('frac', 0.0))
    elif kind == 'yearfrac':
        check_yearfrac(ctx, case['a'], case['b'], case['basis'])
    elif kind == 'oor':
        check_out_of_range(ctx)
