"""C10 - operators are total and follow Excel coercion, error and ordering rules.

Oracle: an independent reference model written from the property statement,
plus order laws (trichotomy, complements, antisymmetry, transitivity) over the
complete table of comparison results."""

import itertools
import math

from hypothesis import strategies as st

from vlib import hyp
from vlib.xl import (ERRORS, ERRSET, FastEnv, compile_spec, exc_key, klass,
                     lit, render, same, strict_numeric_text)

ID = 'C10'
LEVEL = 'exploration'
TECHNIQUE = ('exhaustive enumeration of operator x pool^2 (pool^3 for '
             'transitivity) + Hypothesis-sampled operands, against an '
             'independent reference model of Excel operator semantics'
             '; the operator table repeated with numpy-typed operands; order-independence probe (python-equal argument aliases in three evaluation orders, fresh interpreter each)')
RULE = ('every operator in {+ - * / ^ & = <> < <= > >= unary- %} is applied '
        'to every ordered pair of a mixed-type pool (exhaustive) with '
        'operands given as cell references, a sample as literals and through '
        'a real ExcelCompiler workbook, plus Hypothesis-sampled numbers/'
        'strings; a case is (operator, left, right, operand form); it is '
        'non-trivial when the operands have different Excel classes or one '
        'is an error or blank; distinct = distinct (op, left, right, form)')
LEVEL_TEXT = ('Exploration: the operator table over a 60-value mixed-type pool is '
              'enumerated completely (every operator x every ordered pair, all '
              'order laws over pairs and triples) and widened with sampled '
              'operands; the right level because the property is a finite '
              'table of type-class behaviours plus algebraic laws.')
LEVEL_NOTE = ('Trusts the reference model in props/c10.py (written from the '
              'property statement) and that the pool covers every type class; '
              'magnitudes are bounded as the statement says.')
ASSUMPTIONS = [
    'numbers of moderate magnitude: |x| <= 1e6, |exponent| <= 64',
    'text whose numeric reading is unclear in the statement (TRUE/FALSE '
    'text, surrounding blanks, %, thousands separators) is checked for '
    'closure only',
    '0^0 is checked for closure only (Excel #NUM!, Python 1)',
    'text ordering is asserted for text whose lower() and casefold() agree',
]
MIN_NONTRIVIAL = {'quick': 5000, 'thorough': 5000}

BINOPS = ['+', '-', '*', '/', '^', '&', '=', '<>', '<', '<=', '>', '>=']
CMPOPS = ['=', '<>', '<', '<=', '>', '>=']
UNOPS = ['neg', 'pct']

# (0.00001, 1.5e-7: python writes them with an exponent, Excel does not)
NUMBERS = [0.00001, -1.5e-7, 0, 1, -1, 2, 3, 255, 1000000, 0.5, -2.5, 0.1, 1.25, 3.0, -0.75,
           64, 1e-3,
           # neighbouring doubles: different numbers that print alike
           0.3, 0.30000000000000004, 3.3, 3.3000000000000003,
           1.0000000000000002]
NUMTEXT = ['1', '-2.5', '1e2', '0', '3.0', '.5', '+7']
TEXT = ['', 'a', 'A', 'abc', 'ABC', 'b', 'é', 'É', '日本', '*', '?', 'a b',
        'Z', '#bad']
UNCLEAR = ['TRUE', 'true', 'FALSE', ' 3 ', '3%', '1,000']
LENIENT = ['nan', 'inf', 'Infinity', '-inf', '1_0', '१२', '0x10', '1e']
POOL = (NUMBERS + NUMTEXT + TEXT + UNCLEAR + LENIENT + [True, False, None] +
        list(ERRORS))


def sub(v):
    k = klass(v)
    if k == 'text':
        if v == '':
            return 'text-empty'
        if strict_numeric_text(v):
            return 'text-numeric'
        if v in UNCLEAR or v.strip() != v:
            return 'text-unclear'
        return 'text'
    if k == 'number':
        return 'int' if float(v) == int(v) else 'frac'
    return k


UNCLEAR_NUM = object()
BOUNDS = True    # replay switches the magnitude exclusion off


def to_num(v):
    """Numeric reading of an operand per the statement"""
    k = klass(v)
    if k == 'number':
        return v
    if k == 'logical':
        return int(v)
    if k == 'blank':
        return 0
    if k == 'text':
        if strict_numeric_text(v):
            return float(v)
        if v in UNCLEAR or v.strip() != v or v.upper() in ('TRUE', 'FALSE') \
                or v.endswith('%') or ',' in v or \
                any(c.isdigit() and not c.isascii() for c in v):
            return UNCLEAR_NUM
        return '#VALUE!'
    raise AssertionError(v)


def neutral(other):
    k = klass(other)
    return {'number': 0, 'text': '', 'logical': False, 'blank': 0}[k]


def cmp_key(v):
    k = klass(v)
    if k == 'number':
        return (0, v)
    if k == 'text':
        return (1, v.lower())
    return (2, v)


def text_order_clear(v):
    return not isinstance(v, str) or v.lower() == v.casefold()


CLOSURE_ONLY = object()


def expected(op, a, b):
    """Reference result, or CLOSURE_ONLY when the statement leaves it open"""
    if op not in UNOPS and a in ERRSET and isinstance(a, str):
        return a
    if isinstance(b, str) and b in ERRSET:
        return b
    if op == '&':
        return render(a) + render(b)
    if op in CMPOPS:
        if a is None:
            a = neutral(b)
        if b is None:
            b = neutral(a)
        if not (text_order_clear(a) and text_order_clear(b)):
            if op in ('=', '<>') and klass(a) != klass(b):
                return op == '<>'
            return CLOSURE_ONLY
        if klass(a) == klass(b) == 'number' and a != b and \
                '%.15g' % a == '%.15g' % b:
            # neighbouring doubles: Excel itself calls them equal (15
            # significant digits); the statement only demands ONE order, which
            # the trichotomy / complement laws check
            return CLOSURE_ONLY
        ka, kb = cmp_key(a), cmp_key(b)
        return {'=': ka == kb, '<>': ka != kb, '<': ka < kb, '<=': ka <= kb,
                '>': ka > kb, '>=': ka >= kb}[op]
    # arithmetic
    nb = to_num(b)
    if op == 'neg':
        if nb is UNCLEAR_NUM:
            return CLOSURE_ONLY
        return nb if nb == '#VALUE!' else -nb
    if op == 'pct':
        if nb is UNCLEAR_NUM:
            return CLOSURE_ONLY
        return nb if nb == '#VALUE!' else nb / 100
    na = to_num(a)
    if na is UNCLEAR_NUM or nb is UNCLEAR_NUM:
        return CLOSURE_ONLY
    if na == '#VALUE!' or nb == '#VALUE!':
        return '#VALUE!'
    if op == '+':
        return na + nb
    if op == '-':
        return na - nb
    if op == '*':
        return na * nb
    if op == '/':
        return '#DIV/0!' if nb == 0 else na / nb
    if op == '^':
        if na == 0 and nb == 0:
            return CLOSURE_ONLY
        if na == 0 and nb < 0:
            return '#DIV/0!'
        try:
            r = float(na) ** float(nb)
        except (OverflowError, ZeroDivisionError):
            return 'ANY-ERROR'
        if isinstance(r, complex) or not math.isfinite(r):
            return 'ANY-ERROR'
        return r
    raise AssertionError(op)


def formula_for(op, la, lb):
    if op == 'neg':
        return f'=-{lb}'
    if op == 'pct':
        return f'={lb}%'
    return f'={la}{op}{lb}'


def judge(op, a, b, got):
    """None if fine, else (kind, message)"""
    k = klass(got)
    if k.startswith('other') or k == 'blank':
        return 'type', f'result {got!r} is {k}'
    if isinstance(got, (int, float)) and not isinstance(got, bool) and \
            abs(got) > 1.7976931348623157e308:
        return 'type', 'result magnitude exceeds the float range'
    exp = expected(op, a, b)
    if exp is CLOSURE_ONLY:
        return None
    if exp == 'ANY-ERROR':
        if k != 'error':
            return 'value', f'expected an error value, got {got!r}'
        return None
    if isinstance(exp, float) and isinstance(got, (int, float)) and \
            not isinstance(got, bool):
        if not math.isclose(got, exp, rel_tol=1e-12, abs_tol=1e-300):
            return 'value', f'expected {exp!r}, got {got!r}'
        return None
    if not same(exp, got, rel=1e-12):
        return 'value', f'expected {exp!r}, got {got!r}'
    return None


def run_case(rec, env, op, a, b, form, got_fn):
    nontrivial = (klass(a) != klass(b) and op not in UNOPS) or \
        klass(b) in ('error', 'blank') or klass(a) in ('error', 'blank')
    case = dict(op=op, a=a, b=b, form=form)
    if BOUNDS and op == '^' and klass(b) != 'error':
        try:
            nb = float(b) if b is not None else 0
        except ValueError:
            nb = 0
        if abs(nb) > 64:
            rec.label('excluded:exponent>64')
            return None, None
    rec.case(key=(op, repr(a), repr(b), form), nontrivial=nontrivial,
             labels=(f'op:{op}', f'form:{form}',
                     f'classes:{klass(a)}/{klass(b)}'),
             sample=case)
    try:
        got = got_fn()
    except Exception as exc:
        klass_key = f'{op}:{sub(a)}:{sub(b)}:raises:{exc_key(exc)}'
        rec.fail(klass_key, case, f'{op} on {a!r},{b!r} raised {exc!r}'[:500])
        return klass_key, None
    bad = judge(op, a, b, got)
    if bad:
        klass_key = f'{op}:{sub(a)}:{sub(b)}:{bad[0]}'
        rec.fail(klass_key, case, f'{op} on {a!r},{b!r} ({form}): {bad[1]}')
        return klass_key, got
    return None, got


def check_laws(rec, table, pool):
    """table[(op, i, j)] -> result for comparison ops over pool indices"""
    idx = range(len(pool))
    n = 0
    for i, j in itertools.product(idx, idx):
        a, b = pool[i], pool[j]
        if klass(a) == 'error' or klass(b) == 'error':
            continue
        r = {op: table.get((op, i, j)) for op in CMPOPS}
        if any(not isinstance(v, bool) for v in r.values()):
            continue   # already reported by the pair check
        n += 1
        case = dict(op='laws', a=a, b=b, form='ref')
        tag = f'{sub(a)}:{sub(b)}'
        if (r['<'], r['='], r['>']).count(True) != 1:
            rec.fail(f'law:trichotomy:{tag}', case,
                     f'<,=,> on {a!r},{b!r} give {r}')
        if r['<>'] == r['='] or r['<='] == r['>'] or r['>='] == r['<']:
            rec.fail(f'law:complement:{tag}', case,
                     f'complements broken on {a!r},{b!r}: {r}')
        rev = table.get(('>', j, i))
        if isinstance(rev, bool) and rev != r['<']:
            rec.fail(f'law:antisymmetry:{tag}', case,
                     f'{a!r}<{b!r} is {r["<"]} but reversed > is {rev}')
    rec.bulk(n, 0, 'law:pairs')
    # transitivity over non-blank, non-error triples
    nb = [i for i in idx if klass(pool[i]) not in ('error', 'blank')]
    le = {(i, j): table.get(('<=', i, j)) for i in nb for j in nb}
    m = 0
    for i, j, k in itertools.product(nb, nb, nb):
        m += 1
        if le[i, j] is True and le[j, k] is True and le[i, k] is not True:
            rec.fail(f'law:transitivity:{sub(pool[i])}:{sub(pool[j])}:'
                     f'{sub(pool[k])}',
                     dict(op='laws3', a=pool[i], b=pool[j], c=pool[k]),
                     f'{pool[i]!r}<={pool[j]!r}<={pool[k]!r} but not '
                     f'{pool[i]!r}<={pool[k]!r}')
    rec.bulk(m, 0, 'law:triples')


def run_pool_refs(rec, pool, ops=None):
    env = FastEnv()
    table = {}
    for op in (ops or BINOPS + UNOPS):
        text = formula_for(op, 'A1', 'B1')
        for (i, a), (j, b) in itertools.product(enumerate(pool), repeat=2):
            if op in UNOPS and i != 0:
                continue
            aa = None if op in UNOPS else a
            _, got = run_case(
                rec, env, op, aa, b, 'ref',
                lambda: env.eval(text, {'A1': aa, 'B1': b}))
            if op in CMPOPS:
                table[op, i, j] = got
    check_laws(rec, table, pool)


def run_pool_literals(rec, pool, picks):
    env = FastEnv()
    for op, i, j in picks:
        a, b = pool[i], pool[j]
        if a is None or b is None:
            continue
        if op in UNOPS:
            a = None
        # negative literals are parenthesised: precedence is C02's subject
        la = None if a is None else (
            f'({lit(a)})' if isinstance(a, (int, float)) and
            not isinstance(a, bool) and a < 0 else lit(a))
        lb = f'({lit(b)})' if isinstance(b, (int, float)) and \
            not isinstance(b, bool) and b < 0 else lit(b)
        text = formula_for(op, la, lb)
        run_case(rec, env, op, a, b, 'literal', lambda: FastEnv().eval(text))


def run_pool_workbook(rec, pool, pairs):
    for i, j in pairs:
        a, b = pool[i], pool[j]
        cells = {'A1': a, 'B1': b}
        if isinstance(a, str) and a.startswith('='):
            continue
        for n, op in enumerate(BINOPS + UNOPS, start=1):
            cells[f'C{n}'] = formula_for(op, 'A1', 'B1')
        model = compile_spec({'sheets': {'S': cells}})
        for n, op in enumerate(BINOPS + UNOPS, start=1):
            aa = None if op in UNOPS else a
            run_case(rec, None, op, aa, b, 'workbook',
                     lambda: model.evaluate(f'S!C{n}'))


# -- Hypothesis-sampled operands ------------------------------------------

def decimals():
    return st.builds(lambda k, j: k / 10 ** j if j else k,
                     st.integers(-10 ** 6, 10 ** 6), st.integers(0, 4))


def sampled_value():
    return st.one_of(
        st.integers(-10 ** 6, 10 ** 6),
        decimals(),
        st.integers(-64, 64),
        st.text(alphabet=st.characters(
            codec='utf-8', exclude_categories=('Cs', 'Cc')), max_size=5),
        st.text(alphabet='0123456789.-+eE ', max_size=6),
        st.sampled_from(POOL),
    )


def hyp_body(rec, env):
    def body(case):
        op, a, b = case
        if op in UNOPS:
            a = None
        for v in (a, b):
            if isinstance(v, str):
                try:
                    x = float(v)
                except ValueError:
                    continue
                if x != x or abs(x) > 1e6 or 0 < abs(x) < 1e-6:
                    rec.label('excluded:immoderate-magnitude')
                    return None
        text = formula_for(op, 'A1', 'B1')
        key, _ = run_case(rec, env, op, a, b, 'ref-sampled',
                          lambda: env.eval(text, {'A1': a, 'B1': b}))
        if key:
            return key, rec.failures[key][2]
        return None
    return body


# -- shards ----------------------------------------------------------------

PURITY_TEMPLATES = ['=A1+B1',
                    '=A1-B1',
                    '=A1*B1',
                    '=A1/B1',
                    '=A1^B1',
                    '=A1&B1',
                    '=A1=B1',
                    '=A1<>B1',
                    '=A1<B1',
                    '=A1<=B1',
                    '=A1>B1',
                    '=A1>=B1',
                    '=-A1',
                    '=A1%',
                    '=+A1']


def shards(tier, seed):
    out = [dict(kind='refs', ops=[op]) for op in BINOPS] + \
        [dict(kind='refs', ops=UNOPS)]
    out.append(dict(kind='laws'))
    n_lit = 4 if tier == 'quick' else 16
    for k in range(n_lit):
        out.append(dict(kind='literals', part=k, parts=n_lit,
                        stride=7 if tier == 'quick' else 1))
    n_wb = 8 if tier == 'quick' else 16
    for k in range(n_wb):
        out.append(dict(kind='workbook', part=k, parts=n_wb,
                        stride=11 if tier == 'quick' else 1))
    n_h = 4 if tier == 'quick' else 16
    for k in range(n_h):
        out.append(dict(kind='hyp', seed=seed * 1000 + k,
                        n=3000 if tier == 'quick' else 200000))
    out.append(dict(kind='purity'))
    out.append(dict(kind='numpy', ops=BINOPS[:6]))
    out.append(dict(kind='numpy', ops=BINOPS[6:] + UNOPS))
    return out


def to_np(v):
    """the numpy scalar pycel's own functions (SLOPE, FACTDOUBLE, ...) would
    leave in a cell for this number"""
    import numpy as np
    if type(v) is int:
        return np.int64(v)
    if type(v) is float:
        return np.float64(v)
    if type(v) is bool:
        return np.bool_(v)      # what a comparison of numpy numbers returns
    return v


def run_numpy(rec, env, op, a, b):
    """the python type that holds a number is irrelevant: same verdict with
    numpy-typed operands (judged against the reference for the plain values)"""
    text = formula_for(op, 'A1', 'B1')
    variants = [(to_np(a), to_np(b))]
    if type(a) in (int, float, bool) and type(b) in (int, float, bool):
        variants += [(to_np(a), b), (a, to_np(b))]
    for k, (na, nb) in enumerate(variants):
        run_case(rec, env, op, a, b, f'numpy{k}',
                 lambda: env.eval(text, {'A1': na, 'B1': nb}))


def run_shard(shard, rec):
    if shard['kind'] == 'purity':
        from vlib import purity
        return purity.run(rec, ID, PURITY_TEMPLATES)
    kind = shard['kind']
    if kind == 'numpy':
        env = FastEnv()
        for op in shard['ops']:
            for a, b in itertools.product(POOL, repeat=2):
                if op in UNOPS:
                    if a is not POOL[0]:
                        continue
                    a = None
                if type(a) in (int, float, bool) or \
                        type(b) in (int, float, bool):
                    run_numpy(rec, env, op, a, b)
        rec.exhaustive.append(f'ops {shard["ops"]} x pool^2 with numpy-typed '
                              f'numeric operands')
        return
    if kind == 'refs':
        env = FastEnv()
        for op in shard['ops']:
            text = formula_for(op, 'A1', 'B1')
            for a, b in itertools.product(POOL, repeat=2):
                if op in UNOPS:
                    if a is not POOL[0]:
                        continue
                    a = None
                run_case(rec, env, op, a, b, 'ref',
                         lambda: env.eval(text, {'A1': a, 'B1': b}))
        rec.exhaustive.append(f'ops {shard["ops"]} x pool^2 (cell refs)')
    elif kind == 'laws':
        sink = type(rec)(rec.tier, rec.seed, rec.open_patterns)
        env = FastEnv()
        table = {}
        for op in CMPOPS:
            text = formula_for(op, 'A1', 'B1')
            for (i, a), (j, b) in itertools.product(enumerate(POOL), repeat=2):
                try:
                    table[op, i, j] = env.eval(text, {'A1': a, 'B1': b})
                except Exception:
                    table[op, i, j] = None
        check_laws(rec, table, POOL)
        rec.exhaustive.append('order laws over pool^2 and pool^3')
        del sink
    elif kind == 'literals':
        triples = [(op, i, j) for op in BINOPS + UNOPS
                   for i in range(len(POOL)) for j in range(len(POOL))]
        triples = triples[shard['part']::shard['parts']][::shard['stride']]
        run_pool_literals(rec, POOL, triples)
    elif kind == 'workbook':
        pairs = [(i, j) for i in range(len(POOL)) for j in range(len(POOL))]
        pairs = pairs[shard['part']::shard['parts']][::shard['stride']]
        run_pool_workbook(rec, POOL, pairs)
    elif kind == 'hyp':
        env = FastEnv()
        strategy = st.tuples(st.sampled_from(BINOPS + UNOPS),
                             sampled_value(), sampled_value())
        hyp.search(rec, strategy, hyp_body(rec, env), shard['n'],
                   shard['seed'])


def replay(case, rec):
    from vlib import purity
    if purity.is_case(case):
        return purity.replay(rec, ID, case)
    global BOUNDS
    BOUNDS = False
    try:
        _replay(case, rec)
    finally:
        BOUNDS = True


def _replay(case, rec):
    op, a, b = case['op'], case.get('a'), case.get('b')
    if op == 'laws':
        pool = [a, b]
    elif op == 'laws3':
        pool = [a, b, case['c']]
    else:
        pool = None
    if pool is not None:
        env = FastEnv()
        table = {}
        for o in CMPOPS:
            for (i, x), (j, y) in itertools.product(enumerate(pool), repeat=2):
                try:
                    table[o, i, j] = env.eval(
                        formula_for(o, 'A1', 'B1'), {'A1': x, 'B1': y})
                except Exception:
                    table[o, i, j] = None
        check_laws(rec, table, pool)
        return
    form = case.get('form', 'ref')
    if form.startswith('numpy'):
        run_numpy(rec, FastEnv(), op, a, b)
    elif form == 'literal':
        run_pool_literals(rec, [a, b], [(op, 0, 1)])
    elif form == 'workbook':
        run_pool_workbook(rec, [a, b], [(0, 1)])
    else:
        env = FastEnv()
        text = formula_for(op, 'A1', 'B1')
        run_case(rec, env, op, a, b, form,
                 lambda: env.eval(text, {'A1': a, 'B1': b}))
