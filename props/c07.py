"""C07 - evaluations on different threads are isolated from each other.

The harness owns the schedule: every worker thread blocks at each hook event
(formula evaluation / cell read / range read, PYCEL_VERIF hook) until the
controller grants it the next slice, so interleavings are enumerated, not
left to the GIL.  Oracle: each thread's results and per-cell evaluation
counts equal those of its solo run."""

import itertools
import queue
import threading

from hypothesis import strategies as st

from vlib import hyp, models
from vlib.xl import TempDir, compile_spec, exc_key, write_xlsx_with_results

ID = 'C07'
LEVEL = 'exploration'
TECHNIQUE = ('deterministic schedule enumeration: two workloads on two '
             'threads, preempted at hook events (all (j, k): the second '
             'workload runs k events or to completion inside the j-th event '
             'of the first) plus Hypothesis-generated multi-switch '
             'schedules; differential against solo runs; every public '
             'operation as first pycel call of a new thread'
             '; a formula chain deeper than the recursion limit next to a small evaluation (interpreter-wide settings); every workload on the importing thread vs a brand-new thread; first calls on a thread warmed by a same-address iterative workbook')
LEVEL_TEXT = ('Exploration with complete enumeration of the two-switch '
              'schedule family for 9 ordered workload pairs (iterative with '
              'different settings, CSE array with shape changes, plain '
              'DAG), fresh and warmed threads; multi-switch schedules are '
              'sampled.')
LEVEL_NOTE = ('Preemption is explored at hook-event granularity (cell '
              'evaluation and every cell/range read), not between two '
              'bytecodes of one library function; both shared objects under '
              'test (array-formula context stack, iteration tracker) are '
              'only touched from python code that passes through the hook.')
RULE = ('case = (workload pair, warm flag, schedule); a schedule is a list '
        'of slices (thread, number of hook events); results and per-cell '
        'evaluation counts are compared with the solo run of each workload; '
        'non-trivial = the schedule preempts the first workload while an '
        'iterative pass or an array-formula context is open and the second '
        'workload opens one of its own (at least one switch inside both); '
        'distinct = distinct (pair, warm, schedule)')
ASSUMPTIONS = ['workloads are kept to a few dozen hook events so that the '
               '(j, k) family can be enumerated']
MIN_NONTRIVIAL = {'quick': 500, 'thorough': 5000}


# -- workloads ----------------------------------------------------------------

def w_iter(iterations, tolerance, b):
    spec = {'sheets': {'S': {
        'B1': b, 'B2': 2.0,
        'A1': '=B1+0.5*A2', 'A2': '=B2+0.25*A1', 'C1': '=SUM(A1:A2)'}}}

    def build():
        return compile_spec(spec, cycles=True)

    def run(model):
        r1 = model.evaluate('S!C1', iterations=iterations,
                            tolerance=tolerance)
        return [r1, model.evaluate('S!A1', iterations=iterations,
                                   tolerance=tolerance)]
    return build, run


def w_cse():
    spec = {'sheets': {'S': {'A1': 1, 'B1': 2, 'C1': 3, 'A2': 4, 'B2': 5,
                             'C2': 6, 'H1': '=SUM(E1:G3)'}},
            'arrays': [dict(sheet='S', ref='E1:G3', formula='=A1:B2*2'),
                       dict(sheet='S', ref='J1:J2', formula='=A1:C1+E1:G1')]}

    def build():
        return compile_spec(spec)

    def run(model):
        return [model.evaluate('S!E1:G3'), model.evaluate('S!J1:J2'),
                model.evaluate('S!F2'), model.evaluate('S!H1')]
    return build, run


def w_plain():
    spec = {'sheets': {'S': {'A1': 1, 'B1': 2, 'C1': 3,
                             'A2': '=SUM(A1:C1)', 'B2': '=A2*2+B1',
                             'C2': '=IF(B2>5,A2,C1)&"x"',
                             'A3': '=SUM(A2:B2)+VLOOKUP(2,A1:C1,1,TRUE)'}}}

    def build():
        return compile_spec(spec)

    def run(model):
        return [model.evaluate('S!A3'), model.evaluate('S!C2')]
    return build, run


def w_format():
    """functions that lean on interpreter state a thread may not share
    (decimal context, locale): ties and long numbers through TEXT / ROUND"""
    spec = {'sheets': {'S': {
        'A1': 2.5, 'B1': 0.125, 'C1': 1234.5, 'D1': 1e25, 'E1': 7.5,
        'A2': '=TEXT(A1,"0")', 'B2': '=TEXT(B1,"0.00")',
        'C2': '=TEXT(C1,"#,##0")', 'D2': '=TEXT(D1,"0.0000")',
        'E2': '=TEXT(E1,"0")&ROUND(A1,0)&ROUND(B1,2)',
        'A3': '=A2&B2&C2&LEN(D2)&E2', 'B3': '=FIXED(C1,0)&DOLLAR(A1,0)'}}}

    def build():
        return compile_spec(spec)

    def run(model):
        return [models_safe(model, 'S!A3'), models_safe(model, 'S!B3')]
    return build, run


def models_safe(model, addr):
    try:
        return model.evaluate(addr)
    except Exception as exc:        # noqa
        return ('raises', exc_key(exc))


WORKLOADS = {
    'format': w_format(),
    'iter-3': w_iter(3, 1e-12, 1.0),
    'iter-8': w_iter(8, 1e-12, 5.0),
    'iter-tol': w_iter(50, 0.05, 3.0),
    'cse': w_cse(),
    'plain': w_plain(),
}
PAIRS = [('iter-3', 'iter-8'), ('iter-8', 'iter-3'), ('iter-3', 'iter-tol'),
         ('iter-tol', 'cse'), ('cse', 'iter-3'), ('cse', 'cse'),
         ('plain', 'iter-8'), ('iter-3', 'plain'), ('cse', 'plain'),
         ('format', 'plain')]


def warm_up():
    """a small iterative evaluate with its own settings"""
    build, run = w_iter(2, 0.5, 9.0)
    run(build())


# -- schedule controller ------------------------------------------------------

class Controller:
    def __init__(self):
        self.idents = {}
        self.go = {}
        self.reports = queue.Queue()
        self.events = {}
        self.trace = {}

    def hook(self, event, excel_formula, address):
        tid = self.idents.get(threading.get_ident())
        if tid is None:
            return
        self.events[tid] += 1
        cell = excel_formula.cell
        key = (event, str(cell.address) if cell is not None else '?')
        self.trace[tid][key] = self.trace[tid].get(key, 0) + 1
        # report the event and wait for the next grant
        self.reports.put((tid, 'event'))
        self.go[tid].acquire()

    def worker(self, tid, fn, box):
        self.idents[threading.get_ident()] = tid
        self.go[tid].acquire()        # wait for the first grant
        try:
            box['result'] = fn()
        except BaseException as exc:   # noqa
            box['exc'] = exc
        self.reports.put((tid, 'done'))

    def run(self, fns, schedule):
        """fns: {tid: callable}; schedule: list of (tid, n_events)"""
        import pycel.excelformula as xf
        boxes = {tid: {} for tid in fns}
        threads = {}
        for tid, fn in fns.items():
            self.go[tid] = threading.Semaphore(0)
            self.events[tid] = 0
            self.trace[tid] = {}
            threads[tid] = threading.Thread(
                target=self.worker, args=(tid, fn, boxes[tid]))
        done = set()
        xf.verif_hook = self.hook
        try:
            for t in threads.values():
                t.start()
            # everything after the schedule: first thread to completion,
            # then the second
            tail = [(tid, None) for tid in fns]
            for tid, n in list(schedule) + tail:
                if tid in done:
                    continue
                count = 0
                while n is None or count < n:
                    self.go[tid].release()
                    who, what = self.reports.get(timeout=60)
                    assert who == tid, (who, tid)
                    if what == 'done':
                        done.add(tid)
                        break
                    count += 1
        finally:
            xf.verif_hook = None
            for tid in fns:
                if tid not in done:
                    # never leave a worker blocked
                    for _ in range(100000):
                        self.go[tid].release()
        for t in threads.values():
            t.join(timeout=60)
        return boxes, dict(self.events), dict(self.trace)


def solo(name, warm):
    build, run = WORKLOADS[name]
    model = build()

    def fn():
        if warm:
            warm_up()
        return run(model)
    ctl = Controller()
    boxes, events, trace = ctl.run({1: fn}, [])
    if 'exc' in boxes[1]:
        raise boxes[1]['exc']
    return boxes[1]['result'], events[1], trace[1]


_SOLO = {}


def solo_cached(name, warm):
    if (name, warm) not in _SOLO:
        _SOLO[name, warm] = solo(name, warm)
    return _SOLO[name, warm]


def check_schedule(rec, pair, warm, schedule):
    n1, n2 = pair
    case = dict(pair=list(pair), warm=warm,
                schedule=[list(s) for s in schedule])
    want1, ev1, tr1 = solo_cached(n1, warm)
    want2, ev2, tr2 = solo_cached(n2, warm)
    m1, m2 = WORKLOADS[n1][0](), WORKLOADS[n2][0]()

    def f1():
        if warm:
            warm_up()
        return WORKLOADS[n1][1](m1)

    def f2():
        if warm:
            warm_up()
        return WORKLOADS[n2][1](m2)
    ctl = Controller()
    with rec.watch(f'hang:{n1}+{n2}', case, limit=120):
        boxes, events, trace = ctl.run({1: f1, 2: f2}, schedule)
    # non-trivial: a switch to thread 2 strictly inside thread 1's events and
    # thread 2 gets at least one event of its own before thread 1 resumes
    inside = False
    seen1 = 0
    for tid, n in schedule:
        if tid == 1:
            seen1 += n or 0
        elif 0 < seen1 < ev1 and (n is None or n > 0):
            inside = True
    rec.case(key=(pair, warm, repr(schedule)), nontrivial=inside,
             labels=(f'pair:{n1}+{n2}', 'warm' if warm else 'fresh',
                     f'switches:{min(len(schedule), 4)}'),
             sample=case)
    tag = f'{n1}+{n2}:' + ('warm' if warm else 'fresh')
    failure = None
    for tid, name, want, wtrace in ((1, n1, want1, tr1), (2, n2, want2, tr2)):
        box = boxes[tid]
        if 'exc' in box:
            failure = (f'raises:{exc_key(box["exc"])}:{tag}',
                       f'workload {name} (thread {tid}) raised '
                       f'{box["exc"]!r} under schedule {schedule}'[:400])
            break
        if not models.same_value(box.get('result'), want):
            failure = (f'result-differs:{name}:{tag}',
                       f'workload {name} (thread {tid}) returned '
                       f'{box.get("result")!r}, alone it returns {want!r}; '
                       f'schedule {schedule}')
            break
        if trace[tid] != wtrace:
            diff = {k: (trace[tid].get(k), wtrace.get(k))
                    for k in set(trace[tid]) | set(wtrace)
                    if trace[tid].get(k) != wtrace.get(k)}
            failure = (f'evaluation-counts-differ:{name}:{tag}',
                       f'workload {name} (thread {tid}) event counts differ '
                       f'from its solo run: {dict(list(diff.items())[:4])}; '
                       f'schedule {schedule}')
            break
    if failure:
        rec.fail(failure[0], case, failure[1])
    return failure


# -- public operations as first pycel call of a new thread --------------------

def check_thread_independence(rec):
    """every workload gives on a brand-new thread what it gives on the
    thread that imported the library (and the other way round)"""
    for name, (build, run) in WORKLOADS.items():
        case = dict(kind='main-vs-thread', workload=name)
        rec.case(key=('main-vs-thread', name), nontrivial=True,
                 labels=('main-vs-thread',), sample=case)
        box = {}

        def on_thread():
            try:
                box['result'] = run(build())
            except Exception as exc:       # noqa
                box['result'] = ('raises', exc_key(exc))
        worker = threading.Thread(target=on_thread)
        worker.start()
        worker.join()
        try:
            here = run(build())
        except Exception as exc:
            here = ('raises', exc_key(exc))
        if repr(here) != repr(box['result']):
            rec.fail(f'main-vs-thread:{name}', case,
                     f'workload {name}: {here!r} on the thread that loaded '
                     f'the library, {box["result"]!r} on a new thread')


def check_first_call(rec):
    from pycel.excelcompiler import ExcelCompiler
    # (D2 does not depend on A1: trim_graph has to calculate and freeze it)
    spec = {'sheets': {'S': {'A1': 1, 'B1': 2, 'D1': 4, 'A2': '=SUM(A1:B1)',
                             'B2': '=A2*2', 'D2': '=D1*10',
                             'C2': '=B2+A1+D2'}}}
    for iterative in (False, True):
        with TempDir() as tmp:
            base = compile_spec(spec, cycles=True if iterative else None,
                                filename=f'{tmp}/book')
            want = [base.evaluate('S!C2'), base.evaluate('S!B2')]
            base.to_file(f'{tmp}/m', file_types=('yml',))
            base.to_file(f'{tmp}/p', file_types=('pkl',))
            write_xlsx_with_results(
                dict(spec, iterate=dict(count=20, delta=0.001)
                     if iterative else None),
                {'S': {'A2': 3, 'B2': 6, 'D2': 40, 'C2': 47}}, f'{tmp}/book.xlsx')
            for variant in ('fresh', 'warm-same'):
                prepared = compile_spec(spec, cycles=True if iterative else None)
                prepared2 = compile_spec(spec, cycles=True if iterative else None)
                prepared2.evaluate('S!C2')
                prepared3 = compile_spec(spec, cycles=True if iterative else None)
                ops = {
                    'compile': lambda: [compile_spec(
                        spec, cycles=True if iterative else None).evaluate(a)
                        for a in ('S!C2', 'S!B2')],
                    'from_file-yml': lambda: [ExcelCompiler.from_file(
                        f'{tmp}/m.yml').evaluate(a) for a in ('S!C2', 'S!B2')],
                    'from_file-pkl': lambda: [ExcelCompiler.from_file(
                        f'{tmp}/p.pkl').evaluate(a) for a in ('S!C2', 'S!B2')],
                    'xlsx': lambda: [ExcelCompiler(
                        filename=f'{tmp}/book.xlsx').evaluate(a)
                        for a in ('S!C2', 'S!B2')],
                    'evaluate': lambda: [prepared.evaluate(a)
                                         for a in ('S!C2', 'S!B2')],
                    'set_value': lambda: (prepared2.set_value('S!A1', 3),
                                          prepared2.set_value('S!A1', 1),
                                          [prepared2.evaluate(a)
                                           for a in ('S!C2', 'S!B2')])[2],
                    'trim_graph': lambda: (prepared3.trim_graph(
                        ['S!A1'], ['S!C2', 'S!B2']), [prepared3.evaluate(a)
                                                      for a in ('S!C2', 'S!B2')])[1],
                    'validate_calcs': lambda: (ExcelCompiler(
                        filename=f'{tmp}/book.xlsx').validate_calcs(), want)[1],
                }
                for name, op in ops.items():
                    case = dict(kind='first-call', op=name, iterative=iterative,
                                variant=variant)
                    rec.case(key=('first-call', name, iterative, variant),
                             nontrivial=True,
                             labels=('first-call', name, variant), sample=case)
                    box = {}

                    def target():
                        try:
                            if variant == 'warm-same':
                                # the thread has just evaluated ANOTHER
                                # iterative workbook with the same sheet name
                                # and cell addresses
                                other = compile_spec(
                                    {'sheets': {'S': dict(
                                        spec['sheets']['S'], A1=5, B1=9)}},
                                    cycles=True)
                                other.evaluate('S!C2')
                            box['result'] = op()
                        except BaseException as exc:   # noqa
                            box['exc'] = exc
                    t = threading.Thread(target=target)
                    t.start()
                    t.join(60)
                    mode = 'iterative' if iterative else 'plain'
                    if 'exc' in box:
                        rec.fail(f'first-call:raises:{name}:{mode}:{variant}', case,
                                 f'{name} as first call of a new thread raised '
                                 f'{box["exc"]!r}'[:300])
                    elif not models.same_value(box.get('result'), want):
                        rec.fail(f'first-call:result:{name}:{mode}:{variant}', case,
                                 f'{name} on a new thread gave '
                                 f'{box.get("result")!r}, expected {want!r}')


# -- a workload near the interpreter's recursion limit -------------------------

DEEP_N, DEEP_LIMIT = 150, 300


def check_deep(rec):
    """A chain of formulas deeper than the recursion limit allows gives on a
    thread whatever it gives alone (a value or a pycel error), also when a
    small evaluation on another thread begins before it and ends while it is
    in flight, or the other way round.  (The limit is an interpreter-wide
    setting: it is lowered here so that the chain stays short.)"""
    import sys
    cells = {'A1': 1}
    for k in range(2, DEEP_N + 1):
        cells[f'A{k}'] = f'=A{k - 1}+1'
    deep_spec = {'sheets': {'S': cells}}
    small_spec = {'sheets': {'S': {'A1': 1, 'B1': '=A1+1', 'C1': '=B1*2',
                                   'D1': '=SUM(A1:C1)'}}}

    def deep_fn():
        model = compile_spec(deep_spec)
        return lambda: [models_safe(model, f'S!A{DEEP_N}'),
                        models_safe(model, 'S!A5')]

    def small_fn():
        model = compile_spec(small_spec)
        return lambda: [models_safe(model, 'S!D1')]
    old = sys.getrecursionlimit()
    sys.setrecursionlimit(DEEP_LIMIT)
    try:
        wants = {}
        for name, mk in (('deep', deep_fn), ('small', small_fn)):
            boxes, _, _ = Controller().run({1: mk()}, [])
            wants[name] = boxes[1].get('result', ('raises-bare', repr(
                boxes[1].get('exc'))))
        boxes, events, _ = Controller().run({1: small_fn()}, [])
        schedules = {}
        for k in (5, 40, 120):
            # the small evaluation begins first (at each of its events in
            # turn), the deep one begins, the small one ends, the deep one
            # goes on ...
            for j in range(1, events[1] + 1):
                schedules[f'small-{j}:deep-{k}:small-ends'] = [
                    (1, j), (2, k), (1, None)]
            # ... or the small one lies entirely inside the deep one, or
            # ends after it
            schedules[f'deep-{k}:small'] = [(2, k), (1, None)]
            schedules[f'deep-{k}:small-2:deep-ends'] = [
                (2, k), (1, 2), (2, None)]
        schedules['small-3:deep:small-ends'] = [(1, 3), (2, None), (1, None)]
        schedules['alternating'] = [(1, 1), (2, 25), (1, 1), (2, 25), (1, 2),
                                    (2, 60), (1, 1), (2, 60), (1, None)]
        for sname, schedule in schedules.items():
            case = dict(kind='deep', schedule=sname)
            rec.case(key=('deep', sname), nontrivial=True,
                     labels=('deep-chain', sname), sample=case)
            with rec.watch('hang:deep', case, limit=120):
                boxes, _, _ = Controller().run(
                    {1: small_fn(), 2: deep_fn()}, schedule)
            for tid, name in ((1, 'small'), (2, 'deep')):
                got = boxes[tid].get('result', ('raises-bare', repr(
                    boxes[tid].get('exc'))))
                if not models.same_value(got, wants[name]) and not all(
                        models.same_value(g, w)
                        for g, w in zip(got, wants[name])):
                    rec.fail(f'deep:result-differs:{name}', case,
                             f'{name} workload (chain of {DEEP_N} formulas, '
                             f'recursion limit {DEEP_LIMIT}): alone '
                             f'{str(wants[name])[:80]}, under schedule '
                             f'{sname}: {str(got)[:80]}')
            # (an evaluation may leave the limit raised: start every
            # schedule from the same setting)
            sys.setrecursionlimit(DEEP_LIMIT)
    finally:
        sys.setrecursionlimit(old)


# -- shards -------------------------------------------------------------------

def shards(tier, seed):
    out = [dict(kind='first-call'), dict(kind='deep')]
    for pair in PAIRS:
        for warm in (False, True):
            out.append(dict(kind='jk', pair=list(pair), warm=warm,
                            stride=3 if tier == 'quick' else 1))
    for k in range(4 if tier == 'quick' else 16):
        out.append(dict(kind='hyp', seed=seed * 1000 + k,
                        n=60 if tier == 'quick' else 4000))
    return out


def run_shard(shard, rec):
    if shard['kind'] == 'first-call':
        check_thread_independence(rec)
        check_first_call(rec)
    elif shard['kind'] == 'deep':
        check_deep(rec)
    elif shard['kind'] == 'jk':
        pair, warm = tuple(shard['pair']), shard['warm']
        _, ev1, _ = solo_cached(pair[0], warm)
        _, ev2, _ = solo_cached(pair[1], warm)
        step = shard['stride']
        for j in range(1, ev1 + 1):
            ks = list(range(1, ev2 + 1, step)) + [None]
            for k in ks:
                if step > 1 and j % step not in (1 % step,) and \
                        k is not None and k > 2:
                    continue
                check_schedule(rec, pair, warm, [(1, j), (2, k)])
        if step == 1:
            rec.exhaustive.append(f'all (j, k) schedules for {pair} '
                                  f'warm={warm}')
    else:
        strategy = st.tuples(
            st.sampled_from(PAIRS), st.booleans(),
            st.lists(st.tuples(st.sampled_from([1, 2]), st.integers(1, 12)),
                     min_size=2, max_size=10))
        hyp.search(rec, strategy,
                   lambda c: check_schedule(rec, tuple(c[0]), c[1],
                                            [tuple(s) for s in c[2]]),
                   shard['n'], shard['seed'])


def replay(case, rec):
    if isinstance(case, dict) and case.get('kind') == 'main-vs-thread':
        check_thread_independence(rec)
        return
    if isinstance(case, dict) and case.get('kind') == 'first-call':
        check_first_call(rec)
        return
    if isinstance(case, dict) and case.get('kind') == 'deep':
        check_deep(rec)
        return
    if isinstance(case, list):
        check_schedule(rec, tuple(case[0]), case[1],
                       [tuple(s) for s in case[2]])
        return
    check_schedule(rec, tuple(case['pair']), case['warm'],
                   [tuple(s) for s in case['schedule']])
