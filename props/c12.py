"""C12 - validate_calcs reports exactly the stored results that disagree.

Fault enumeration over stored results: a workbook file whose stored formula
results are consistent (computed by a fresh compile) must validate to {};
then each formula cell in turn gets a perturbed stored result and the report
must name it (if it is reachable from the checked outputs and the
perturbation exceeds the tolerance), every other reported cell must depend on
it, and cells that can not be evaluated must be reported, not skipped."""

import os

import networkx as nx
from hypothesis import strategies as st

from vlib import hyp, models, wbspec
from vlib.xl import (ERRORS, TempDir, compile_spec, exc_key, klass,
                     write_xlsx_with_results)

ID = 'C12'
LEVEL = 'fault_enumeration'
TECHNIQUE = ('generated workbooks written as xlsx with consistent stored '
             'results, then one stored result perturbed per case (each '
             'formula cell in turn x perturbation kind x tolerance x choice '
             'of checked outputs); reference = which cells depend on the '
             'perturbed one'
             '; unevaluable cells (unknown function, missing sheet) as bystander, as the only output and as two cells with the same text; tolerance 0 = equality')
LEVEL_TEXT = ('Fault enumeration: for every sampled workbook every formula '
              'cell is perturbed in turn (number far beyond / far below the '
              'tolerance, 2x / 0.5x the tolerance, other text, negated logical, '
              'other error) under '
              'four tolerance settings (0 = equality) and three choices of outputs.')
LEVEL_NOTE = ('Trusts the xlsx writer in vlib/xl.py (self-checked: the '
              'unperturbed file must validate to {}) and dep_graph '
              'descendants (C04) for "depends on".')
RULE = ('case = (spec, perturbed formula cell, perturbation kind, '
        'tolerance in {None, 1e-6, 1e-2, 0}, outputs in {all, one sink, one '
        'other cell}); non-trivial = the perturbed cell has a dependant '
        'among the checked cells; distinct = distinct case')
ASSUMPTIONS = ['formula cells whose consistent result is blank carry no '
               'stored value and are not perturbed']
MIN_NONTRIVIAL = {'quick': 300, 'thorough': 6000}

TOLS = [None, 1e-6, 1e-2, 0]
KINDS = ('big', 'small', 'neg', 'type', 'above', 'below')


def perturb(value, kind, tol):
    """-> (new stored value, must be reported?)"""
    k = klass(value)
    if k == 'number' and tol == 0 and kind in ('small', 'above', 'below'):
        # tolerance 0 asks for equality: the smallest change must be reported
        import math
        new = {'small': value + (abs(value) * 1e-9 or 1e-12),
               'above': math.nextafter(float(value), math.inf),
               'below': None}[kind]
        return (new, True) if new is not None and new != value else \
            (None, False)
    if k == 'number':
        big = max(1.0, abs(value)) * 0.5 + (tol or 0) * 100 + 1
        small = (tol or 1e-8) * 1e-3 if tol else abs(value) * 1e-9
        if kind == 'big':
            return value + big, True
        if kind == 'small':
            return value + small, False
        if kind == 'type':
            return 'seven', True
        if kind in ('above', 'below'):
            # just outside / just inside the tolerance: 2x and 0.5x of the
            # absolute tolerance if one is given, else of the documented
            # relative 1e-5 (absolute 1e-8 around zero)
            unit = tol if tol else (abs(value) * 1e-5 if value else 1e-8)
            new = value + unit * (2 if kind == 'above' else 0.5)
            actual = abs(new - value)           # after float rounding
            if kind == 'above' and actual >= 1.5 * unit:
                return new, True
            if kind == 'below' and 0 < actual <= 0.75 * unit:
                return new, False
            return None, False
        return value - big, True
    if kind in ('above', 'below'):
        return None, False
    if k == 'text':
        return (value + 'x' if kind != 'type' else 12345), True
    if k == 'logical':
        return (not value), True
    if k == 'error':
        other = next(e for e in ERRORS if e != value)
        return (other if kind != 'type' else 7), True
    return None, False


def check_case(rec, spec, p_idx, kind, tol_idx, out_mode, out_idx,
               unknown_idx=None):
    from pycel.excelcompiler import ExcelCompiler
    spec = models.normalise_for_file(spec)
    forms = spec['formulas']
    tol = TOLS[tol_idx % len(TOLS)]
    case = dict(spec=spec, p_idx=p_idx, kind=kind, tol_idx=tol_idx,
                out_mode=out_mode, out_idx=out_idx, unknown_idx=unknown_idx)
    failure = []

    def fail(key, msg):
        if not failure:
            failure.append((key, msg))
    nontrivial = False
    try:
        values = wbspec.fresh_values(spec)
        storable = [a for a in forms if klass(values[a]) in (
            'number', 'text', 'logical', 'error') and values[a] != '']
        if not storable:
            rec.label('excluded:nothing-to-perturb')
            return None
        P = storable[p_idx % len(storable)]
        new, must_report = perturb(values[P], kind, tol)
        if new is None:
            rec.label('excluded:perturbation-not-applicable')
            return None
        probe = compile_spec(wbspec.build_spec(spec))
        for a in forms:
            models.safe_eval(probe, a)
        pcell = probe.cell_map[P]
        desc = {c.address.address for c in
                nx.descendants(probe.dep_graph, pcell)} \
            if pcell in probe.dep_graph else set()
        if out_mode == 'all':
            outputs, checked = None, set(forms)
        else:
            out = forms[out_idx % len(forms)]
            ocell = probe.cell_map[out]
            anc = {c.address.address for c in
                   nx.ancestors(probe.dep_graph, ocell)} \
                if ocell in probe.dep_graph else set()
            outputs, checked = [out], (anc | {out})
        reachable = P in checked
        nontrivial = reachable and bool(desc & checked)
        with TempDir() as tmp:
            stored = {a: v for a, v in values.items()}
            # (1) the consistent file validates to {}
            path = os.path.join(tmp, 'consistent.xlsx')
            write_xlsx_with_results(wbspec.build_spec(spec),
                                    models.results_by_sheet(stored), path)
            with rec.watch('hang:validate', case, limit=120):
                report = ExcelCompiler(filename=path).validate_calcs(
                    output_addrs=outputs, tolerance=tol)
            if report != {}:
                fail('consistent-file-reported:' + ','.join(sorted(report)),
                     f'consistent stored results, validate_calcs('
                     f'{outputs}, tol={tol}) = {str(report)[:300]}')
            # (2) the perturbed file
            stored[P] = new
            path = os.path.join(tmp, 'perturbed.xlsx')
            write_xlsx_with_results(wbspec.build_spec(spec),
                                    models.results_by_sheet(stored), path)
            with rec.watch('hang:validate', case, limit=120):
                report = ExcelCompiler(filename=path).validate_calcs(
                    output_addrs=outputs, tolerance=tol)
            mism = report.get('mismatch', {})
            vk = klass(values[P])
            tag = f'{vk}:{kind}:tol{tol}:{out_mode}'
            other_keys = set(report) - {'mismatch'}
            if other_keys:
                fail(f'unexpected-report-section:{sorted(other_keys)[0]}',
                     f'{str(report)[:300]}')
            if reachable and must_report:
                if P not in mism:
                    fail(f'perturbed-cell-not-reported:{tag}',
                         f'stored result of {P} changed {values[P]!r} -> '
                         f'{new!r}, validate_calcs({outputs}, tol={tol}) '
                         f'reports {sorted(mism)}')
                else:
                    m = mism[P]
                    if not (models.same_value(m.original, new) and
                            models.same_value(m.calced, values[P])):
                        fail(f'mismatch-values-wrong:{tag}',
                             f'{P}: reported ({m.original!r}, {m.calced!r}),'
                             f' stored {new!r}, recomputed {values[P]!r}')
            if not reachable and mism:
                fail(f'false-mismatch:{tag}:unreachable',
                     f'{P} {values[P]!r} -> {new!r} is not reachable from '
                     f'{outputs} but report {sorted(mism)}')
            if reachable and not must_report and P in mism:
                # (its dependants may legitimately amplify the difference)
                fail(f'false-mismatch:{tag}:within-tolerance',
                     f'{P} {values[P]!r} -> {new!r} (tol={tol}) is reported')
            for a in mism:
                if a != P and a not in desc:
                    fail(f'unrelated-cell-reported:{tag}',
                         f'{a} reported although it does not depend on the '
                         f'perturbed cell {P}')
            # (3) a cell that can not be evaluated is reported, and does not
            #     hide the perturbed one
            if unknown_idx is not None and out_mode == 'all' and \
                    must_report and not failure:
                U = forms[unknown_idx % len(forms)]
                usheet, ucoord = U.rsplit('!', 1)
                ucell = probe.cell_map[U]
                desc_u = {c.address.address for c in
                          nx.descendants(probe.dep_graph, ucell)} \
                    if ucell in probe.dep_graph else set()
                if U != P and P not in desc_u and models.feature_of(
                        spec, U) != 'array-member' and isinstance(
                        spec['sheets'][usheet].get(ucoord), str):
                    spec_u = dict(spec)
                    spec_u['sheets'] = {n: dict(c) for n, c in
                                        spec['sheets'].items()}
                    body = spec['sheets'][usheet][ucoord][1:]
                    # an unknown function, or a reference to a sheet that
                    # does not exist (fails while the cell is loaded)
                    spec_u['sheets'][usheet][ucoord] = \
                        f'=NOSUCHFUNCTION({body})' if unknown_idx % 2 else \
                        f'=NoSuchSheet!A1+({body})'
                    path = os.path.join(tmp, 'unknown.xlsx')
                    write_xlsx_with_results(
                        wbspec.build_spec(spec_u),
                        models.results_by_sheet(stored), path)
                    report = ExcelCompiler(filename=path).validate_calcs(
                        tolerance=tol)
                    listed = str(report.get('not-implemented', {})) + \
                        str(report.get('exceptions', {}))
                    if U not in listed:
                        fail('unevaluable-cell-not-reported',
                             f'{U} holds an unknown function but the report '
                             f'has {sorted(report)}: {str(report)[:300]}')
                    # ... and nothing but that cell and its dependants
                    import re
                    blamed = set(re.findall(
                        r"\('([^']+![A-Z]+[0-9]+)'", listed))
                    extra = sorted(a for a in blamed
                                   if a != U and a not in desc_u and
                                   a.rsplit('!', 1)[0] in spec['sheets'])
                    if extra:
                        fail('evaluable-cell-reported-as-exception',
                             f'{U} can not be evaluated; the report also '
                             f'lists {extra}, which do not depend on it: '
                             f'{str(report)[:300]}')
                    # ... a second cell that fails in the very same way
                    # (same formula text, same message) is reported as well
                    twins = [a for a in forms
                             if a != U and a != P and P not in {
                                 c.address.address for c in nx.descendants(
                                     probe.dep_graph, probe.cell_map[a])}
                             and models.feature_of(spec, a) != 'array-member'
                             and isinstance(spec['sheets'][a.rsplit('!', 1)[0]]
                                            .get(a.rsplit('!', 1)[1]), str)]
                    if twins:
                        U2 = twins[unknown_idx % len(twins)]
                        text = '=NOSUCHFUNCTION("k")' if unknown_idx % 2 \
                            else '=NoSuchSheet!$A$1+1'
                        for a in (U, U2):
                            sh, co = a.rsplit('!', 1)
                            spec_u['sheets'][sh][co] = text
                        path = os.path.join(tmp, 'twins.xlsx')
                        write_xlsx_with_results(
                            wbspec.build_spec(spec_u),
                            models.results_by_sheet(stored), path)
                        report2 = ExcelCompiler(filename=path).validate_calcs(
                            tolerance=tol)
                        listed2 = str(report2.get('not-implemented', {})) + \
                            str(report2.get('exceptions', {}))
                        rec.label('two-unevaluable-cells-same-text')
                        for a in (U, U2):
                            if f"'{a}'" not in listed2:
                                fail('unevaluable-cell-not-reported:twin',
                                     f'{U} and {U2} both hold {text}; the '
                                     f'report does not list {a}: '
                                     f'{str(report2)[:300]}')
                    if P not in report.get('mismatch', {}):
                        fail('unevaluable-cell-hides-mismatch',
                             f'with an unknown function in {U}, the '
                             f'perturbed cell {P} is no longer reported: '
                             f'{str(report)[:300]}')
            # (4) the perturbed cell is reached only THROUGH a cell that can
            #     not be evaluated: it is still reachable from that output
            if unknown_idx is not None and must_report and not failure:
                cands = [a for a in forms
                         if a in desc and a != P and models.feature_of(
                             spec, a) != 'array-member' and isinstance(
                             spec['sheets'][a.rsplit('!', 1)[0]].get(
                                 a.rsplit('!', 1)[1]), str)]
                if cands:
                    U = cands[unknown_idx % len(cands)]
                    usheet, ucoord = U.rsplit('!', 1)
                    spec_u = dict(spec)
                    spec_u['sheets'] = {n: dict(c) for n, c in
                                        spec['sheets'].items()}
                    spec_u['sheets'][usheet][ucoord] = \
                        '=NOSUCHFUNCTION(' + spec['sheets'][usheet][ucoord][1:] + ')'
                    path = os.path.join(tmp, 'through-unknown.xlsx')
                    write_xlsx_with_results(
                        wbspec.build_spec(spec_u),
                        models.results_by_sheet(stored), path)
                    report = ExcelCompiler(filename=path).validate_calcs(
                        output_addrs=[U], tolerance=tol)
                    rec.label('through-unevaluable-output')
                    listed = str(report.get('not-implemented', {})) + \
                        str(report.get('exceptions', {}))
                    if U not in listed:
                        fail('unevaluable-cell-not-reported',
                             f'output {U} holds an unknown function but the '
                             f'report has {sorted(report)}')
                    elif P not in report.get('mismatch', {}):
                        fail('mismatch-behind-unevaluable-cell-not-reported',
                             f'{P} ({values[P]!r} -> {new!r}) is a precedent '
                             f'of the output {U}, which holds an unknown '
                             f'function; validate_calcs([{U}]) reports '
                             f'{str(report)[:200]}')
    except Exception as exc:
        fail(f'raises:{exc_key(exc)}', repr(exc)[:300])
    rec.case(key=(repr(spec['sheets']), repr(spec['arrays']), p_idx, kind,
                  tol_idx, out_mode, out_idx, unknown_idx),
             nontrivial=nontrivial,
             labels=(f'kind:{kind}', f'tol:{tol}', f'outputs:{out_mode}'),
             sample=dict(p_idx=p_idx, kind=kind, tol=tol, out_mode=out_mode,
                         out_idx=out_idx, sheets=spec['sheets'],
                         arrays=spec['arrays']))
    if failure:
        rec.fail(failure[0][0], case, failure[0][1])
        return failure[0]
    return None


def shards(tier, seed):
    return [dict(kind='hyp', seed=seed * 1000 + k,
                 n=10 if tier == 'quick' else 400) for k in range(16)]


def run_shard(shard, rec):
    strategy = st.tuples(wbspec.specs(max_formulas=8), st.integers(0, 3),
                         st.sampled_from(['all', 'all', 'one', 'one']),
                         st.integers(0, 40), st.integers(0, 40))

    def body(c):
        spec, tol_idx, out_mode, out_idx, unknown_idx = c
        n = len(spec['formulas'])
        # fault sites enumerated: every formula cell x perturbation kind
        for p_idx in range(n):
            for kind in KINDS:
                res = check_case(rec, spec, p_idx, kind, tol_idx, out_mode,
                                 out_idx,
                                 unknown_idx if kind == 'big' else None)
                if res and not rec.is_known(res[0]):
                    return res
        return None
    hyp.search(rec, strategy, body, shard['n'], shard['seed'], max_rounds=2,
               shrink=False)
    rec.exhaustive.append('every formula cell x perturbation kind of each '
                          'sampled workbook')


def replay(case, rec):
    if isinstance(case, list):
        spec, tol_idx, out_mode, out_idx, unknown_idx = case
        for p_idx in range(len(spec['formulas'])):
            for kind in KINDS:
                check_case(rec, spec, p_idx, kind, tol_idx, out_mode,
                           out_idx, unknown_idx if kind == 'big' else None)
        return
    check_case(rec, case['spec'], case['p_idx'], case['kind'],
               case['tol_idx'], case['out_mode'], case['out_idx'],
               case.get('unknown_idx'))
