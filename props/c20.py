"""C20 - text functions: slicing partitions, first-match search, TEXT is
decimal-exact.  Oracle: python string slicing on the Excel rendering, the
identities of the statement evaluated through pycel itself, and a
decimal.Decimal reference for TEXT number formats."""

import itertools
from decimal import ROUND_HALF_UP, Decimal

from hypothesis import strategies as st

from vlib import hyp
from vlib.xl import FastEnv, compile_spec, exc_key, klass, render

ID = 'C20'
LEVEL = 'exploration'
TECHNIQUE = ('exhaustive enumeration of all strings of length <=3 over a '
             '5-symbol alphabet x positions -1..10, Hypothesis-sampled longer '
             'strings / numbers / formats, against python slicing of the '
             'Excel rendering, the identities of the statement and a Decimal '
             'reference for TEXT'
             '; order-independence probe')
LEVEL_TEXT = ('Exploration, complete for short strings and the position '
              'grid; TEXT formats come from a small grammar crossed with '
              'tie-biased decimals.')
LEVEL_NOTE = ('Trusts python str slicing/find/replace as the definition of '
              'the text operations and Decimal for half-away-from-zero '
              'rounding; FIND of an empty '
              'needle past the end, UPPER/LOWER of non-ASCII letters and '
              'negative numbers that round to zero in TEXT are not asserted.')
RULE = ('strings s (all of length <=3 over {a,b,A,space,e-acute}, sampled to '
        'length 8 incl. non-BMP) x n,k in -1..10 for LEFT/RIGHT/MID/REPLACE/'
        'LEN; FIND/SUBSTITUTE over (needle, haystack, start/instance); TRIM/'
        'UPPER/LOWER/EXACT/CONCATENATE; numbers and logicals as text '
        'arguments; TEXT(x,f) for f in [#,##]0+[.0+#*][%] and x=k/10^j with '
        'forced ties; non-trivial = position outside 1..len, a repeated or '
        'missing needle, a space run, a non-text argument, or a rounding '
        'tie; distinct = distinct (function, arguments)')
ASSUMPTIONS = ['integer positions/counts', 'character = unicode code point']
MIN_NONTRIVIAL = {'quick': 5000, 'thorough': 50000}

ALPHABET = ['a', 'b', 'A', ' ', 'é']


def is_text(v, want):
    return isinstance(v, str) and v == want


class Ctx:
    def __init__(self, rec, form='fast'):
        self.rec = rec
        self.form = form
        self.env = FastEnv()

    def ev(self, formula, cells):
        if self.form == 'fast':
            return self.env.eval(formula, cells)
        cells = {k: v for k, v in cells.items() if v is not None and v != ''}
        spec = {'sheets': {'S': dict(cells, Z1=formula)}}
        return compile_spec(spec).evaluate('S!Z1')

    def call(self, formula, **cells):
        try:
            return self.ev(formula, cells), None
        except Exception as exc:
            return None, exc

    def expect(self, name, formula, cells, want, cls, case):
        """want: value, or callable(got)->bool"""
        got, exc = self.call(formula, **cells)
        if exc is not None:
            self.rec.fail(f'{name}:raises:{exc_key(exc)}:{cls}', case,
                          f'{formula} with {cells} raised {exc!r}'[:400])
            return None
        if want == '' and got == 0 and not isinstance(got, bool):
            return ''      # empty text result of a formula
        ok = want(got) if callable(want) else (
            type(got) is type(want) and got == want)
        if not ok:
            self.rec.fail(f'{name}:value:{cls}', case,
                          f'{formula} with {cells} = {got!r}' + (
                              '' if callable(want) else f', expected {want!r}'))
        return got


def arg_class(s):
    k = klass(s)
    return k if k != 'text' else ('text-empty' if s == '' else 'text')


def pos_class(n, length):
    if n < 0:
        return 'neg'
    if n == 0:
        return 'zero'
    return 'inside' if n <= length else 'beyond'


def check_slices(ctx, s, n, k, t='XY'):
    """LEFT/RIGHT/MID/REPLACE/LEN on s (text, number or logical)"""
    rec = ctx.rec
    r = render(s)
    length = len(r)
    cells = {'A1': s, 'B1': n, 'C1': k, 'D1': t}
    case = dict(kind='slice', s=s, n=n, k=k, t=t, form=ctx.form)
    ac = arg_class(s)
    nontrivial = not (1 <= n <= length) or not (1 <= k <= length) or \
        ac != 'text'
    rec.case(key=('slice', repr(s), n, k, t, ctx.form), nontrivial=nontrivial,
             labels=('slice', f'arg:{ac}', f'n:{pos_class(n, length)}',
                     f'k:{pos_class(k, length)}'), sample=case)
    nc, kc = pos_class(n, length), pos_class(k, length)
    ctx.expect('LEN', '=LEN(A1)', cells, length, ac, case)
    # LEFT / RIGHT
    ctx.expect('LEFT', '=LEFT(A1,B1)', cells,
               '#VALUE!' if n < 0 else r[:n], f'{ac}:{nc}', case)
    ctx.expect('RIGHT', '=RIGHT(A1,C1)', cells,
               '#VALUE!' if k < 0 else (r[length - k:] if k <= length else r)
               if k else '', f'{ac}:{kc}', case)
    # MID
    ctx.expect('MID', '=MID(A1,B1,C1)', cells,
               '#VALUE!' if n < 1 or k < 0 else r[n - 1:n - 1 + k],
               f'{ac}:{nc}:{kc}', case)
    # partition identity of the statement
    if n >= 0:
        ctx.expect('identity-left-mid', '=LEFT(A1,B1)&MID(A1,B1+1,LEN(A1))',
                   cells, r, f'{ac}:{nc}', case)
    # REPLACE and its identity
    want = '#VALUE!' if n < 1 or k < 0 else r[:n - 1] + t + r[n - 1 + k:]
    got = ctx.expect('REPLACE', '=REPLACE(A1,B1,C1,D1)', cells, want,
                     f'{ac}:{nc}:{kc}', case)
    if n >= 1 and k >= 0 and got is not None:
        ctx.expect('identity-replace',
                   '=LEFT(A1,B1-1)&D1&MID(A1,B1+C1,LEN(A1))', cells, want,
                   f'{ac}:{nc}:{kc}', case)


def nth_replace(s, old, new, i):
    start = 0
    for _ in range(i - 1):
        p = s.find(old, start)
        if p < 0:
            return s
        start = p + len(old)
    p = s.find(old, start)
    if p < 0:
        return s
    return s[:p] + new + s[p + len(old):]


def check_search(ctx, f, s, start, new='Q', inst=1):
    rec = ctx.rec
    cells = {'A1': f, 'B1': s, 'C1': start, 'D1': new, 'E1': inst}
    case = dict(kind='search', f=f, s=s, start=start, new=new, inst=inst,
                form=ctx.form)
    count = s.count(f) if f else 0
    rec.case(key=('search', f, s, start, new, inst, ctx.form),
             nontrivial=count != 1 or start != 1,
             labels=('search', f'count:{min(count, 3)}',
                     f'start:{pos_class(start, len(s))}'), sample=case)
    sc = pos_class(start, len(s))
    cc = f'count{min(count, 2)}'
    # FIND
    if start < 1:
        want = '#VALUE!'
    elif start > len(s):
        want = '#VALUE!' if f else None
    else:
        p = s.find(f, start - 1)
        want = '#VALUE!' if p < 0 else p + 1
    if want is not None:
        ctx.expect('FIND', '=FIND(A1,B1,C1)', cells, want,
                   f'{"empty" if not f else "needle"}:{sc}:{cc}', case)
        if start == 1:
            ctx.expect('FIND', '=FIND(A1,B1)', cells, want,
                       f'default:{cc}', case)
        if isinstance(want, int):
            ctx.expect('identity-find', '=MID(B1,FIND(A1,B1,C1),LEN(A1))',
                       cells, f, f'{sc}:{cc}', case)
    # SUBSTITUTE (nothing to look for: the text stays as it is)
    if not f:
        ctx.expect('SUBSTITUTE', '=SUBSTITUTE(B1,A1,D1)', cells, s,
                   f'empty-pattern:{cc}', case)
        if inst >= 1:
            ctx.expect('SUBSTITUTE', '=SUBSTITUTE(B1,A1,D1,E1)', cells, s,
                       f'empty-pattern:nth:{cc}', case)
    if f:
        ctx.expect('SUBSTITUTE', '=SUBSTITUTE(B1,A1,D1)', cells,
                   s.replace(f, new), f'all:{cc}', case)
        want = '#VALUE!' if inst < 1 else nth_replace(s, f, new, inst)
        ctx.expect('SUBSTITUTE', '=SUBSTITUTE(B1,A1,D1,E1)', cells, want,
                   f'nth:{"bad" if inst < 1 else min(inst, 3)}:{cc}', case)


def check_misc(ctx, a, b, c):
    rec = ctx.rec
    cells = {'A1': a, 'B1': b, 'C1': c}
    case = dict(kind='misc', a=a, b=b, c=c, form=ctx.form)
    ra, rb, rc = render(a), render(b), render(c)
    spaces = isinstance(a, str) and ('  ' in a or a != a.strip(' '))
    rec.case(key=('misc', repr(a), repr(b), repr(c), ctx.form),
             nontrivial=spaces or klass(a) != 'text' or klass(b) != 'text' or
             ra.lower() == rb.lower(),
             labels=('misc', f'arg:{arg_class(a)}',
                     'spaces' if spaces else 'nospaces'), sample=case)
    ac = arg_class(a)
    # CONCATENATE agrees with & and with the renderings
    ctx.expect('CONCATENATE', '=CONCATENATE(A1,B1,C1)', cells, ra + rb + rc,
               f'{ac}:{arg_class(b)}', case)
    ctx.expect('CONCATENATE', '=CONCATENATE(A1,B1,C1)=(A1&B1&C1)', cells,
               True if (ra + rb + rc) != '' else (lambda g: g is True),
               f'amp:{ac}', case)
    # EXACT is case-sensitive equality
    ctx.expect('EXACT', '=EXACT(A1,B1)', cells, ra == rb,
               f'{ac}:{arg_class(b)}', case)
    ctx.expect('EXACT', '=EXACT(A1,A1)', cells, True, 'self', case)
    if isinstance(a, str):
        words = [w for w in a.split(' ') if w]
        sp = ('lead' if a.startswith(' ') else '') + \
            ('trail' if a.endswith(' ') else '') + \
            ('inner' if '  ' in a.strip(' ') else '') or 'clean'
        ctx.expect('TRIM', '=TRIM(A1)', cells, ' '.join(words), sp, case)
        ctx.expect('TRIM', '=TRIM(TRIM(A1))=TRIM(A1)', cells,
                   lambda g: g is True or (not words and g in (True, 0)),
                   'idempotent', case)
        for f in ('UPPER', 'LOWER'):
            if a.isascii():
                ctx.expect(f, f'={f}(A1)', cells,
                           a.upper() if f == 'UPPER' else a.lower(),
                           'ascii', case)
            ctx.expect(f, f'=EXACT({f}({f}(A1)),{f}(A1))', cells, True,
                       'idempotent', case)


# -- TEXT -----------------------------------------------------------------

def formats():
    out = []
    for ip in ('0', '00', '000', '#,##0', '0,000', '00,000'):
        for fp in ('', '.0', '.00', '.000', '.0#', '.00#', '.#', '.0##'):
            for pct in ('', '%'):
                out.append(ip + fp + pct)
    return sorted(set(out))


def ref_text(x, fmt):
    """Reference rendering, or None when unasserted"""
    pct = fmt.endswith('%')
    body = fmt[:-1] if pct else fmt
    ip, _, fp = body.partition('.')
    thousands = ',' in ip
    min_int = ip.count('0')
    v = Decimal(repr(float(x)) if isinstance(x, float) else repr(x))
    if pct:
        v *= 100
    decimals = len(fp)
    q = v.quantize(Decimal(1).scaleb(-decimals), rounding=ROUND_HALF_UP)
    if q == 0 and x < 0:
        return None
    sign = '-' if q < 0 else ''
    digits = f'{abs(q):.{decimals}f}'
    int_digits, _, frac_digits = digits.partition('.')
    int_digits = int_digits.lstrip('0').rjust(min_int, '0')
    if thousands:
        # (the zeros the format pads with are grouped like digits: 0,012)
        groups, rest = [], int_digits
        while rest:
            groups.append(rest[-3:])
            rest = rest[:-3]
        int_digits = ','.join(groups[::-1])
    keep = fp.count('0')
    while len(frac_digits) > keep and frac_digits.endswith('0'):
        frac_digits = frac_digits[:-1]
    out = sign + int_digits
    if '.' in body:
        out += '.' + frac_digits
    return out + ('%' if pct else '')


def check_text(ctx, x, fmt):
    rec = ctx.rec
    case = dict(kind='text', x=x, fmt=fmt, form=ctx.form)
    want = ref_text(x, fmt)
    pct = fmt.endswith('%')
    decimals = len(fmt.rstrip('%').partition('.')[2])
    v = Decimal(repr(float(x))) * (100 if pct else 1)
    rem = abs(v.scaleb(decimals)) % 1
    tie = rem == Decimal('0.5')
    rec.case(key=('text', repr(x), fmt, ctx.form),
             nontrivial=tie or x < 0 or ',' in fmt or pct,
             labels=('TEXT', 'tie' if tie else 'notie',
                     'pct' if pct else 'nopct',
                     'thousands' if ',' in fmt else 'plain'), sample=case)
    if want is None:
        rec.label('excluded:negative-rounds-to-zero')
        want = (lambda g: isinstance(g, str))
    cls = ('tie' if tie else 'plain') + (':pct' if pct else '') + \
        (':thousands' if ',' in fmt else '') + (':neg' if x < 0 else '') + \
        (':optional' if '#' in fmt.replace('#,##', '') else '')
    ctx.expect('TEXT', '=TEXT(A1,B1)', {'A1': x, 'B1': fmt}, want, cls, case)


# -- shards -------------------------------------------------------------------

def short_strings(maxlen=3):
    for n in range(maxlen + 1):
        for t in itertools.product(ALPHABET, repeat=n):
            yield ''.join(t)


NUMBERS = [3.0, 3, 12.5, -7, 0, 0.25, 100, -0.5, 1234.5678, True, False,
           0.00001, -1.5e-7]
TEXT_XS = [0, 1, 0.5, 1.5, 2.5, 0.505, 0.125, 2.675, 1.005, 1234.5,
           1234567.891, 0.045, 99.995, 0.995, 12, 0.1, 1e-3, 5, 1000,
           999.5, 0.0049, 0.005, 7.25, 10.5]


def text_strategy():
    chars = st.one_of(st.sampled_from(ALPHABET + ['b', 'a', ' ']),
                      st.sampled_from(['日', '\U0001F600', 'ß', 'Z', '1',
                                       '.', '"', '\n']))
    return st.lists(chars, max_size=8).map(''.join)


PURITY_TEMPLATES = ['=LEN(A1)',
                    '=LEFT(A1,B1)',
                    '=RIGHT(A1,B1)',
                    '=MID(A1,B1,1)',
                    '=FIND(A1,B1)',
                    '=SEARCH(A1,B1)',
                    '=TRIM(A1)',
                    '=UPPER(A1)',
                    '=LOWER(A1)',
                    '=VALUE(A1)',
                    '=TEXT(A1,"0.0")',
                    '=TEXT(A1,B1)',
                    '=CONCATENATE(A1,B1)',
                    '=REPLACE(A1,1,B1,"x")',
                    '=SUBSTITUTE(A1,B1,"x")',
                    '=REPT(A1,B1)',
                    '=EXACT(A1,B1)',
                    '=T(A1)',
                    '=N(A1)']


def shards(tier, seed):
    out = []
    parts = 8
    for k in range(parts):
        out.append(dict(kind='slices', part=k, parts=parts,
                        maxlen=2 if tier == 'quick' else 3))
    out.append(dict(kind='numbers'))
    out.append(dict(kind='search-grid'))
    out.append(dict(kind='misc-grid'))
    out.append(dict(kind='text-grid'))
    out.append(dict(kind='workbook'))
    n_h = 6 if tier == 'quick' else 16
    for k in range(n_h):
        out.append(dict(kind='hyp', seed=seed * 1000 + k,
                        n=1200 if tier == 'quick' else 100000))
    out.append(dict(kind='purity'))
    return out


def run_shard(shard, rec):
    if shard['kind'] == 'purity':
        from vlib import purity
        return purity.run(rec, ID, PURITY_TEMPLATES)
    kind = shard['kind']
    ctx = Ctx(rec)
    if kind == 'slices':
        strings = list(short_strings(shard['maxlen']))
        for s in strings[shard['part']::shard['parts']]:
            for n in range(-1, 11):
                for k in range(-1, 11):
                    if shard['maxlen'] == 2 or n <= 5 and k <= 5 or \
                            (n + k) % 3 == 0:
                        check_slices(ctx, s, n, k)
        rec.exhaustive.append(
            f'all strings of length <= {shard["maxlen"]} x n,k in -1..10')
    elif kind == 'numbers':
        for v in NUMBERS:
            for n in range(-1, 8):
                for k in range(-1, 8):
                    check_slices(ctx, v, n, k)
    elif kind == 'search-grid':
        hay = [s for s in short_strings(3)] + ['abab', 'aaaa', 'a a a',
                                               'ééaé', 'abAab']
        needles = ['', 'a', 'b', 'ab', 'aa', ' ', 'é', 'A', 'ba']
        for s in hay:
            for f in needles:
                for start in (-1, 0, 1, 2, 3, len(s), len(s) + 1,
                              len(s) + 2):
                    check_search(ctx, f, s, start, inst=1)
                for inst in (-1, 0, 1, 2, 3, 4):
                    check_search(ctx, f, s, 1, new='QQ', inst=inst)
                    check_search(ctx, f, s, 1, new='', inst=inst)
    elif kind == 'misc-grid':
        pool = ['', 'a', 'A', 'ab', 'Ab', ' a', 'a ', ' a  b ', '  ', 'a  b',
                ' ', 'é', 'É', 3.0, 3, 2.5, True, False, 'a\tb', ' a b ',
                'x   y   z', ' a ']
        for a in pool:
            for b in pool[:12] + [3, 3.0, True]:
                check_misc(ctx, a, b, 'c')
    elif kind == 'text-grid':
        for x in TEXT_XS:
            for fmt in formats():
                check_text(ctx, x, fmt)
                if x:
                    check_text(ctx, -x, fmt)
        rec.exhaustive.append('TEXT: value pool x format grammar')
    elif kind == 'workbook':
        w = Ctx(rec, form='workbook')
        for s in ('abcdef', 'a b', 3.0, True):
            for n, k in ((1, 2), (0, 0), (3, 10), (-1, 1), (2, -1)):
                check_slices(w, s, n, k)
        check_search(w, 'a', 'banana', 1, inst=2)
        check_search(w, 'x', 'banana', 3, inst=1)
        check_misc(w, ' a  b ', 'A  B', 3.0)
        for x, fmt in ((0.505, '0%'), (2.675, '0.00'), (1234.5, '#,##0'),
                       (0.5, '0')):
            check_text(w, x, fmt)
    elif kind == 'hyp':
        ints = st.integers(-1, 10)
        value = st.one_of(text_strategy(), text_strategy(),
                          st.sampled_from(NUMBERS),
                          st.builds(lambda k, j: k / 10 ** j,
                                    st.integers(-99999, 99999),
                                    st.integers(0, 3)))
        xs = st.one_of(
            st.builds(lambda k, j: float(Decimal(k).scaleb(-j)),
                      st.integers(-10 ** 6, 10 ** 6), st.integers(0, 6)),
            st.builds(lambda m, d: float(Decimal(10 * m + 5).scaleb(-d - 1)),
                      st.integers(0, 99999), st.integers(0, 5)),
            st.sampled_from(TEXT_XS))
        strategy = st.one_of(
            st.tuples(st.just('slice'), value, ints, ints, text_strategy()),
            st.tuples(st.just('search'), text_strategy(), text_strategy(),
                      st.integers(-1, 10), text_strategy(),
                      st.integers(-1, 4)),
            st.tuples(st.just('search'),
                      st.sampled_from(['a', 'b', 'ab', ' ']),
                      st.lists(st.sampled_from(['a', 'b', ' ']),
                               max_size=8).map(''.join),
                      st.integers(0, 9), st.sampled_from(['', 'Q', 'ab']),
                      st.integers(0, 4)),
            st.tuples(st.just('misc'), value, value, value),
            st.tuples(st.just('text'), xs, st.sampled_from(formats())),
        )

        def body(case):
            before = dict(rec.fail_counts)
            if case[0] == 'slice':
                check_slices(ctx, *case[1:])
            elif case[0] == 'search':
                check_search(ctx, *case[1:])
            elif case[0] == 'misc':
                check_misc(ctx, *case[1:])
            else:
                check_text(ctx, case[1], case[2])
            for k, v in rec.fail_counts.items():
                if v != before.get(k, 0):
                    return k, rec.failures[k][2]
            return None
        hyp.search(rec, strategy, body, shard['n'], shard['seed'])


def replay(case, rec):
    from vlib import purity
    if purity.is_case(case):
        return purity.replay(rec, ID, case)
    if isinstance(case, list):
        ctx = Ctx(rec)
        if case[0] == 'slice':
            check_slices(ctx, *case[1:])
        elif case[0] == 'search':
            check_search(ctx, *case[1:])
        elif case[0] == 'misc':
            check_misc(ctx, *case[1:])
        else:
            check_text(ctx, case[1], case[2])
        return
    ctx = Ctx(rec, form=case.get('form', 'fast'))
    kind = case['kind']
    if kind == 'slice':
        check_slices(ctx, case['s'], case['n'], case['k'], case.get('t', 'XY'))
    elif kind == 'search':
        check_search(ctx, case['f'], case['s'], case['start'],
                     case.get('new', 'Q'), case.get('inst', 1))
    elif kind == 'misc':
        check_misc(ctx, case['a'], case['b'], case['c'])
    else:
        check_text(ctx, case['x'], case['fmt'])
