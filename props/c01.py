"""C01 - lazy cache coherence: no stale value after any set_value/evaluate
history.

Oracle: differential against a from-scratch compile of the same workbook
with the current input values (pycel is its own reference for formula
semantics, so only cache coherence is decided here)."""

from hypothesis import strategies as st

from vlib import hyp, models, wbspec
from vlib.xl import TempDir, exc_key, klass

ID = 'C01'
LEVEL = 'exploration'
TECHNIQUE = ('model-based testing of set_value/evaluate histories: '
             'Hypothesis-generated acyclic workbooks x configuration x '
             'operation sequences, compared after every observation with a '
             'from-scratch compile (differential oracle); shrunk failing '
             'histories are replayed without Hypothesis'
             "; alias writes (0/FALSE, 1/TRUE, blank/'', letter case), list/tuple/generator address forms; all short histories on fixed workbooks incl. error-valued range members and range-operator forms in every configuration")
LEVEL_TEXT = ('Exploration: thousands of generated workbooks (ranges over '
              'formula cells, nested ranges, names, unbounded row/column '
              'references, CSE arrays, two sheets) x five ways of obtaining '
              'the model x histories of up to 30 operations biased to the '
              'alias pairs 0/FALSE, 1/TRUE, ""/blank and writes of None.')
LEVEL_NOTE = ('Trusts a fresh ExcelCompiler over the same workbook as the '
              'meaning of "the value a from-scratch compile produces"; '
              'set_value is only applied to constant cells already in the '
              'cell map (documented precondition: otherwise the history '
              'evaluates the cell first).')
RULE = ('case = (workbook spec, configuration in {mem, xlsx with stored '
        'results, yml, json, pkl}, history of set / alias-set / set-range / '
        'set-list / evaluate-cell / evaluate-range / evaluate-list / '
        'checkpoint steps); every observation is compared with a fresh '
        'compile under the current inputs; non-trivial = some formula cell '
        'was observed twice with different correct values (so an '
        'invalidation had to reach it); distinct = distinct (spec, config, '
        'history)')
ASSUMPTIONS = ['text constants never start with "=" (openpyxl would read '
               'them as formulas)',
               'xlsx files can not store an empty-string constant; the '
               'xlsx configuration starts from blank instead']
MIN_NONTRIVIAL = {'quick': 400, 'thorough': 8000}


def steps_strategy():
    idx = st.integers(0, 40)
    value = st.sampled_from(wbspec.SET_VALUES)
    step = st.one_of(
        st.tuples(st.just('set'), idx, value),
        st.tuples(st.just('set'), idx, value),
        st.tuples(st.just('alias'), idx),
        st.tuples(st.just('set'), idx, st.none()),
        st.tuples(st.just('eval'), idx),
        st.tuples(st.just('eval'), idx),
        st.tuples(st.just('eval'), idx),
        st.tuples(st.just('evalrange'), idx),
        st.tuples(st.just('evallist'), idx, idx),
        st.tuples(st.just('setrow'), st.lists(value, min_size=4, max_size=4)),
        st.tuples(st.just('setlist'), idx, idx, value, value),
        st.tuples(st.just('checkpoint'), idx),
    )
    return st.lists(step, min_size=2, max_size=30)


def case_strategy(focus=None):
    return st.tuples(wbspec.specs(focus=focus),
                     st.sampled_from(models.CONFIGS), steps_strategy())


class Runner:
    """Interprets a history against model + fresh-compile oracle"""

    def __init__(self, rec, spec, config, tmpdir, cycles=None,
                 model=None, prop='C01'):
        self.rec = rec
        if config == 'xlsx':
            spec = models.normalise_for_file(spec)
        self.spec = spec
        self.config = config
        self.inputs = {}          # current values of written inputs
        self.model = model if model is not None else models.build_model(
            spec, config, tmpdir, cycles=cycles)
        self.cycles = cycles
        self.expected_cache = None
        self.last_seen = {}
        self.nontrivial = False
        self.last_set = None      # (addr, old, new)
        self.failure = None
        self.n_obs = 0

    # -- oracle -----------------------------------------------------------
    def current_spec(self):
        return wbspec.with_inputs(self.spec, self.inputs)

    def oracle(self):
        if self.expected_cache is None:
            from vlib.xl import compile_spec
            self.expected_cache = compile_spec(
                wbspec.build_spec(self.current_spec()))
        return self.expected_cache

    def input_value(self, addr):
        if addr in self.inputs:
            return self.inputs[addr]
        sheet, coord = addr.rsplit('!', 1)
        return self.spec['sheets'][sheet].get(coord)

    # -- steps ------------------------------------------------------------
    def do_set(self, addr, value):
        model = self.model
        if addr not in model.cell_map:
            # documented precondition of set_value
            models.safe_eval(model, addr)
            self.rec.label('set:forced-evaluate-first')
        old = self.input_value(addr)
        model.set_value(addr, value)
        self.inputs[addr] = value
        self.expected_cache = None
        self.last_set = (addr, old, value)
        self.rec.label(f'set:{models.vclass(old)}->{models.vclass(value)}')

    def observe(self, addr, how):
        got = models.safe_eval(self.model, addr)
        want = models.safe_eval(self.oracle(), addr)
        self.n_obs += 1
        if addr in self.last_seen and not models.same_value(
                self.last_seen[addr], want):
            self.nontrivial = True
        self.last_seen[addr] = want
        if not models.same_value(got, want):
            self.fail(addr, how, got, want)
            return False
        return True

    def fail(self, addr, how, got, want):
        if self.failure is not None:
            return
        if self.last_set:
            a, old, new = self.last_set
            trans = f'{models.vclass(old)}->{models.vclass(new)}'
        else:
            trans = 'no-write'
        if ':' in addr:
            feature = 'range-observed:' + (
                'unbounded' if addr.split('!')[1] in
                ('A:A', 'B:B', '1:1', 'A:B', '2:3') else 'rect')
        else:
            feature = models.feature_of(self.spec, addr)
        kind = 'raises' if isinstance(got, tuple) and got[:1] == (
            'raises',) else 'stale'
        klass_key = f'{kind}:{self.config}:{trans}:{feature}'
        self.failure = (klass_key,
                        f'{how} {addr} = {got!r}, from-scratch compile with '
                        f'the current inputs gives {want!r} (last write '
                        f'{self.last_set}, config {self.config})')

    def run(self, steps):
        spec = self.spec
        ins, forms, ranges = spec['inputs'], spec['formulas'], spec['ranges']
        for step in steps:
            if self.failure:
                break
            op = step[0]
            if op == 'set':
                self.do_set(ins[step[1] % len(ins)], step[2])
            elif op == 'alias':
                addr = ins[step[1] % len(ins)]
                self.do_set(addr, models.alias_of(self.input_value(addr)))
            elif op == 'eval':
                self.observe(forms[step[1] % len(forms)], 'evaluate')
            elif op == 'evalrange' and ranges:
                self.observe(ranges[step[1] % len(ranges)], 'evaluate-range')
            elif op == 'evallist':
                a = forms[step[1] % len(forms)]
                b = forms[step[2] % len(forms)]
                try:
                    # a list, a tuple or a generator of addresses
                    form = (step[1] + step[2]) % 3
                    addrs = [a, b] if form == 0 else (a, b) if form == 1 \
                        else (x for x in (a, b))
                    got = self.model.evaluate(addrs)
                    if len(got) != 2:
                        self.fail(a, 'evaluate-list:' + ['list', 'tuple',
                                  'generator'][form], got, [a, b])
                        continue
                    want = [models.safe_eval(self.oracle(), x) for x in (a, b)]
                    for x, g, w in zip((a, b), got, want):
                        self.last_seen[x] = w
                        if not models.same_value(g, w):
                            self.fail(x, 'evaluate-list', g, w)
                except Exception as exc:
                    want = [models.safe_eval(self.oracle(), x) for x in (a, b)]
                    if not any(isinstance(w, tuple) and w[:1] == ('raises',)
                               for w in want):
                        self.fail(a, 'evaluate-list',
                                  ('raises', exc_key(exc)), want)
            elif op == 'setrow':
                row = [f'{wbspec.SHEET}!{c}1' for c in wbspec.COLS]
                if any(a not in self.model.cell_map for a in row):
                    models.safe_eval(self.model, f'{wbspec.SHEET}!A1:D1')
                if all(a in self.model.cell_map for a in row):
                    self.model.set_value(f'{wbspec.SHEET}!A1:D1',
                                         [list(step[1])])
                    for a, v in zip(row, step[1]):
                        self.inputs[a] = v
                    self.expected_cache = None
                    self.last_set = (f'{wbspec.SHEET}!A1:D1', 'row',
                                     list(step[1]))
                    self.rec.label('set:row')
            elif op == 'setlist':
                a = ins[step[1] % len(ins)]
                b = ins[step[2] % len(ins)]
                if a != b:
                    for x in (a, b):
                        if x not in self.model.cell_map:
                            models.safe_eval(self.model, x)
                    self.model.set_value([a, b], [step[3], step[4]])
                    self.inputs[a], self.inputs[b] = step[3], step[4]
                    self.expected_cache = None
                    self.last_set = (a, 'list', step[3])
                    self.rec.label('set:list')
            elif op == 'checkpoint':
                for k, addr in enumerate(forms):
                    if (k + step[1]) % 3 != 0:
                        self.observe(addr, 'checkpoint')
        if not self.failure:
            for addr in forms:
                self.observe(addr, 'final')
            for addr in ranges:
                self.observe(addr, 'final-range')
        return self.failure


def check_case(rec, spec, config, steps):
    case = dict(spec=spec, config=config, steps=[list(s) for s in steps])
    with TempDir() as tmp:
        try:
            runner = Runner(rec, spec, config, tmp)
        except Exception as exc:
            rec.case(key=(repr(spec), config), labels=('build-raises',))
            key = f'build-raises:{config}:{exc_key(exc)}'
            msg = f'obtaining the {config} model raised {exc!r}'[:500]
            rec.fail(key, case, msg)
            return key, msg
        with rec.watch(f'hang:{config}', case, limit=120):
            failure = runner.run(steps)
    feats = {models.feature_of(runner.spec, a) for a in spec['formulas']}
    rec.case(key=(repr(spec['sheets']), repr(spec['arrays']), config,
                  repr(steps)),
             nontrivial=runner.nontrivial,
             labels=[f'config:{config}'] + [f'has:{f}' for f in sorted(feats)],
             sample=dict(config=config, steps=[list(s) for s in steps],
                         sheets=spec['sheets'], arrays=spec['arrays'],
                         names=spec['names']))
    if failure:
        rec.fail(failure[0], case, failure[1])
    return failure


# fixed workbooks for the exhaustive short-history pass
FIXED_SPECS = [
    dict(sheets={'S': {'A1': 1, 'B1': 2, 'A2': '=A1+B1', 'B2': '=SUM(A1:B1)',
                       'A3': '=SUM(A2:B2)', 'B3': '=IF(A1>0,A2,B2)'},
                 'In': {'A1': 5, 'B3': 1}},
         arrays=[], names={}, active='S',
         inputs=['S!A1', 'S!B1', 'In!A1'],
         formulas=['S!A2', 'S!B2', 'S!A3', 'S!B3'], ranges=['S!A2:B2']),
    dict(sheets={'S': {'A1': 0, 'B1': 1, 'C1': '', 'A2': '=A1&B1&C1',
                       'B2': '=SUM(In!A:A)+A1', 'C2': '=COUNT(A1:C1)'},
                 'In': {'A1': 5, 'A2': 6, 'B3': 1}},
         arrays=[], names={}, active='S',
         inputs=['S!A1', 'S!B1', 'S!C1', 'In!A1'],
         formulas=['S!A2', 'S!B2', 'S!C2'], ranges=['In!A:A']),
    dict(sheets={'S': {'A1': 1, 'B1': 2, 'C1': 3, 'D1': 4,
                       'C3': '=SUM(A2:B2)', 'D3': '=first+A2'},
                 'In': {'A1': 5, 'B3': 1}},
         arrays=[dict(sheet='S', ref='A2:B2', formula='=C1:D1*A1')],
         names={'first': 'S!$A$1'}, active='S',
         inputs=['S!A1', 'S!C1', 'S!D1'],
         formulas=['S!A2', 'S!B2', 'S!C3', 'S!D3'], ranges=['S!A2:B2']),
    # formulas whose stored result in the workbook is an empty text, each
    # read by formulas which have a stored result of their own
    dict(sheets={'S': {'A1': 0, 'B1': 1, 'A2': '=IF(A1>0,A1,"")',
                       'B2': '=IF(A2="","",A2&"y")', 'C2': '=A2&"x"&B2',
                       'D2': '=IF(B1>0,C2,A2)', 'C3': '=LEN(A3)+LEN(B2)'},
                 'In': {'A1': 5, 'B3': 1}},
         arrays=[dict(sheet='S', ref='A3:B3', formula='=IF(A1:B1>1,A1:B1,"")')],
         names={}, active='S', inputs=['S!A1', 'S!B1'],
         formulas=['S!A2', 'S!B2', 'S!C2', 'S!D2', 'S!A3', 'S!B3', 'S!C3'],
         ranges=['S!A3:B3']),
    # formula cells that hold error values when the model is obtained, inside
    # a range that other formulas read; the error goes away with a write
    dict(sheets={'S': {'A1': 0, 'B1': 10, 'C1': 'k', 'A2': '=B1/A1',
                       'B2': '=B1+C1', 'C2': '=A1+1', 'A3': '=SUM(A2:C2)',
                       'B3': '=COUNT(A2:C2)&"/"&A2', 'C3': '=IFERROR(A3,-1)',
                       'A4': '=(A2:B2):C2', 'B4': '=SUM(A1:(C1))'},
                 'In': {'A1': 5, 'B3': 1}},
         arrays=[], names={}, active='S', inputs=['S!A1', 'S!B1', 'S!C1'],
         formulas=['S!A2', 'S!B2', 'S!C2', 'S!A3', 'S!B3', 'S!C3', 'S!A4',
                   'S!B4'],
         ranges=['S!A2:C2']),
]
# (the workbook with stored results is read from a file; the error values
# must survive every way of obtaining the model)
FIXED_CONFIGS = {3: ['xlsx'], 4: ['mem', 'xlsx', 'yml', 'json', 'pkl']}
SHORT_VALUES = [None, 0, False, 1, True, 5, '']


def short_histories(spec, length):
    import itertools
    n_in, n_f = len(spec['inputs']), len(spec['formulas'])
    alphabet = [('set', i, v) for i in range(n_in) for v in SHORT_VALUES] + \
        [('eval', j) for j in range(n_f)]
    return itertools.product(alphabet, repeat=length)


def shards(tier, seed):
    out = []
    n_h = 16
    for k in range(n_h):
        out.append(dict(kind='hyp', seed=seed * 1000 + k,
                        n=150 if tier == 'quick' else 7500))
    for i in range(len(FIXED_SPECS)):
        for part in range(2 if tier == 'quick' else 8):
            out.append(dict(kind='short', spec=i, part=part,
                            parts=2 if tier == 'quick' else 8,
                            length=2 if tier == 'quick' else 3,
                            configs=['mem'] if tier == 'quick' else
                            ['mem', 'yml']))
    return out


def _body(rec):
    def body(case):
        spec, config, steps = case
        return check_case(rec, spec, config, steps)
    return body


def run_shard(shard, rec):
    if shard['kind'] == 'hyp':
        # (every third shard: CSE blocks fed by context-sensitive cells)
        hyp.search(rec, case_strategy(
            'context' if shard['seed'] % 3 == 0 else None), _body(rec),
            shard['n'],
                   shard['seed'])
    else:
        spec = FIXED_SPECS[shard['spec']]
        n = 0
        for k, hist in enumerate(short_histories(spec, shard['length'])):
            if k % shard['parts'] != shard['part']:
                continue
            # histories without a write, or ending in a write, add nothing
            if not any(s[0] == 'set' for s in hist):
                continue
            for config in FIXED_CONFIGS.get(shard['spec'], shard['configs']):
                check_case(rec, spec, config, list(hist))
                n += 1
        rec.exhaustive.append(
            f'all histories of length {shard["length"]} on fixed workbook '
            f'{shard["spec"]} (part {shard["part"]})')


def replay(case, rec):
    if isinstance(case, list):
        spec, config, steps = case
    else:
        spec, config, steps = case['spec'], case['config'], case['steps']
    check_case(rec, spec, config, [tuple(s) for s in steps])
