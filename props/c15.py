"""C15 - conditional aggregation (...IF/...IFS) selects exactly the matching
cells.  Oracle: reference criteria matcher written from the statement, plus
laws (IFS with one pair = IF, commuting criteria, =x / <>x partition,
AVERAGEIFS * COUNTIFS = SUMIFS, size mismatch -> #VALUE!, totality)."""

import math
import re

from hypothesis import strategies as st

from vlib import hyp
from vlib.xl import ERRORS, ERRSET, FastEnv, compile_spec, exc_key, klass

ID = 'C15'
LEVEL = 'exploration'
TECHNIQUE = ('Hypothesis-generated mixed-type criteria ranges x a criteria '
             'grammar (numbers, operator prefixes, text, wildcards, empty) '
             'against a reference matcher, plus metamorphic laws between the '
             '...IF and ...IFS families'
             '; case-swap metamorphic law; order-independence probe')
LEVEL_TEXT = ('Exploration over sampled ranges up to 5x3 and 1-3 criteria '
              'pairs from a grammar; every criterion value is also used in '
              'its "=x"/"<>x" forms so the partition law runs on every case.')
LEVEL_NOTE = ('Trusts the reference matcher in props/c15.py.  Left '
              'unasserted (laws and totality only): logical criteria, '
              'logical cells against numeric criteria, empty-text cells '
              'against the criteria "", "=", "<>", and ordering comparisons '
              'between texts.')
RULE = ('criteria range h x w <= 5x3 over {numbers, numeric text, text '
        '(mixed case, wildcard characters), logicals, blank, errors}; value '
        'range of numbers (exact oracle) or mixed (totality); criteria from '
        '{number, numeric text, "op number", text, "op text", ? * ~ '
        'wildcards, "", "=", "<>"} x 1..3 pairs; non-trivial = the range '
        'holds >= 2 classes and the criterion selects a proper non-empty '
        'subset; distinct = distinct (range, criteria)')
ASSUMPTIONS = ['value ranges have the shape of the criteria range unless the '
               'case tests the size-mismatch rule']
MIN_NONTRIVIAL = {'quick': 1500, 'thorough': 30000}

COLS = 'ABC'
VCOLS = 'EFG'
WCOLS = 'IJK'
NUMS = [0, 1, 2, 3, 5, -1, 2.5, 10, 100, -3.5]
TEXTS = ['a', 'A', 'ab', 'AB', 'abc', 'b', 'xyz', 'a*', 'a?c', '', ' ',
         'apple', 'Apple pie', '5', '2.5', '-1', 'x~y', '~', 'a.c', '(x',
         'a+b', '[ab]', 'a\\b', 'x*y', 'aa', 'aba', 'abab', 'B', 'ab\n', 'a\nb']
CELLS = NUMS + TEXTS + [True, False, None, None] + ['#N/A', '#DIV/0!']
UNASSERTED = object()


def parse_criteria(c):
    """-> (op, value) with value a number or text"""
    if klass(c) == 'number':
        return '=', float(c)
    if not isinstance(c, str):
        return None
    m = re.match(r'^(<>|<=|>=|=|<|>)?(.*)$', c, re.S)
    op, val = m.group(1) or '=', m.group(2)
    if re.fullmatch(r'\s*[+-]?(\d+\.?\d*|\.\d+)([eE][+-]?\d+)?\s*', val,
                    re.ASCII):
        return op, float(val)
    return op, val


def wildcard_re(pattern):
    out, i, wild = [], 0, False
    while i < len(pattern):
        ch = pattern[i]
        if ch == '~' and i + 1 < len(pattern) and pattern[i + 1] in '*?~':
            out.append(re.escape(pattern[i + 1]))
            i += 2
            continue
        if ch == '*':
            out.append('.*')
            wild = True
        elif ch == '?':
            out.append('.')
            wild = True
        else:
            out.append(re.escape(ch))
        i += 1
    return re.compile('(?:' + ''.join(out) + r')\Z', re.S | re.I), wild


def matches(x, c):
    """Does cell x satisfy criterion c?  True / False / UNASSERTED"""
    parsed = parse_criteria(c)
    if parsed is None:
        return UNASSERTED            # logical criteria
    op, val = parsed
    kx = klass(x)
    if kx == 'error':
        return UNASSERTED
    if isinstance(val, float):
        if kx == 'logical':
            return UNASSERTED
        if kx == 'text':
            if re.fullmatch(r'\s*[+-]?(\d+\.?\d*|\.\d+)([eE][+-]?\d+)?\s*',
                            x, re.ASCII):
                # numeric text equals a numeric criterion, never orders
                if op == '=':
                    return float(x) == val
                if op == '<>':
                    # text "5" under "<>5": open finding C15-numtext-ne (the
                    # repository's tests pin True); reported once, by the
                    # partition law, not through every value oracle
                    return True if float(x) != val else UNASSERTED
                return UNASSERTED
            return op == '<>'
        if kx == 'blank':
            return op == '<>'
        return {'=': x == val, '<>': x != val, '<': x < val, '<=': x <= val,
                '>': x > val, '>=': x >= val}[op]
    # text criterion
    if val == '':
        if kx == 'blank':
            return op != '<>' if op in ('=', '<>') else UNASSERTED
        if kx == 'text' and x == '':
            return UNASSERTED
        if op == '=':
            return False
        if op == '<>':
            return True
        return UNASSERTED
    if op in ('<', '<=', '>', '>='):
        if kx == 'text':
            return UNASSERTED
        return False
    if '~' in val:
        tail = val.replace('~*', '').replace('~?', '').replace('~~', '')
        if '~' in tail:
            return UNASSERTED        # lone tilde: unclear
    rx, _ = wildcard_re(val)
    hit = kx == 'text' and rx.match(x) is not None
    return hit if op == '=' else not hit


def select(rng_vals, crit):
    """list of True/False/UNASSERTED per cell"""
    return [matches(x, crit) for x in rng_vals]


def cells_for(cols, h, w, vals):
    return {f'{cols[j]}{i + 1}': vals[i * w + j]
            for i in range(h) for j in range(w)}


def rng(cols, h, w):
    return f'{cols[0]}1:{cols[w - 1]}{h}'


def crit_class(c):
    p = parse_criteria(c)
    if p is None:
        return 'logical'
    op, val = p
    if isinstance(val, float):
        return f'num:{op}'
    if val == '':
        return f'empty:{op}'
    if any(ch in val for ch in '*?'):
        return f'wild:{op}'
    return f'text:{op}'


def range_class(vals):
    return '+'.join(sorted({klass(v) for v in vals}))


def num_ok(got, want):
    return klass(got) == 'number' and not isinstance(got, bool) and \
        math.isclose(float(got), float(want), rel_tol=1e-9, abs_tol=1e-9)


def check_case(ctx, h, w, crange, vrange, pairs, form='fast'):
    """crange: criteria range values; vrange: numeric value range;
    pairs: list of (range_id, criterion), range_id 0 = crange, 1 = wrange
    (a second criteria range = crange reversed)"""
    rec, env = ctx
    if form == 'workbook' and any(
            isinstance(c, str) and c.startswith('=') for _, c in pairs):
        rec.label('excluded:workbook-criterion-would-be-a-formula')
        return
    wrange = crange[::-1]
    ranges = [crange, wrange]
    case = dict(kind='ifs', h=h, w=w, crange=crange, vrange=vrange,
                pairs=[list(p) for p in pairs], form=form)
    cells = cells_for(COLS, h, w, crange)
    cells.update(cells_for(VCOLS, h, w, vrange))
    cells.update(cells_for(WCOLS, h, w, wrange))
    names = [rng(COLS, h, w), rng(WCOLS, h, w)]
    vname = rng(VCOLS, h, w)
    for k, (_, c) in enumerate(pairs):
        cells[f'M{k + 1}'] = c
    sel = [select(ranges[rid], c) for rid, c in pairs]
    n = h * w
    combined = []
    for i in range(n):
        col = [s[i] for s in sel]
        if any(v is False for v in col):
            combined.append(False)
        elif any(v is UNASSERTED for v in col):
            combined.append(UNASSERTED)
        else:
            combined.append(True)
    asserted = UNASSERTED not in combined
    chosen = [i for i in range(n) if combined[i] is True]
    proper = asserted and 0 < len(chosen) < n
    rc = range_class(crange)
    cc = ','.join(crit_class(c) for _, c in pairs)
    rec.case(key=('ifs', h, w, repr(crange), repr(vrange), repr(pairs)),
             nontrivial=proper and '+' in rc,
             labels=('ifs', f'pairs:{len(pairs)}',
                     'asserted' if asserted else 'unasserted',
                     f'crit:{crit_class(pairs[0][1]).split(":")[0]}',
                     'sel:' + ('unasserted' if not asserted else 'empty'
                               if not chosen else 'all' if len(chosen) == n
                               else 'proper'),
                     'range:' + ('mixed' if '+' in rc else 'uniform')),
             sample=case)
    tag = '+'.join(sorted({crit_class(c) for _, c in pairs})) + '|' + rc
    etag = '+'.join(sorted({crit_class(c).split(':')[0] for _, c in pairs}))

    def ev(formula):
        if form == 'fast':
            return env.eval(formula, cells)
        spec = {'sheets': {'S': dict(
            {k: v for k, v in cells.items() if v is not None}, Z9=formula)}}
        return compile_spec(spec).evaluate('S!Z9')

    def run(name, formula, want=None, pred=None):
        try:
            got = ev(formula)
        except Exception as exc:
            rec.fail(f'{name}:raises:{exc_key(exc)}:{etag}', case,
                     f'{formula} crit={[c for _, c in pairs]} over '
                     f'{crange} raised {exc!r}'[:500])
            return None
        if klass(got).startswith('other') or got is None:
            rec.fail(f'{name}:type:{tag}', case, f'{formula} = {got!r}')
            return got
        if want is not None and asserted:
            good = (got == want) if isinstance(want, str) else \
                num_ok(got, want)
            if not good:
                rec.fail(f'{name}:value:{tag}', case,
                         f'{formula} crit={[c for _, c in pairs]} over '
                         f'{h}x{w} {crange} values {vrange} = {got!r}, '
                         f'expected {want!r} (selected {chosen})')
        if pred is not None and not pred(got):
            rec.fail(f'{name}:law:{tag}', case,
                     f'{formula} crit={[c for _, c in pairs]} over {crange} '
                     f'= {got!r}')
        return got

    args = ','.join(f'{names[rid]},M{k + 1}'
                    for k, (rid, _) in enumerate(pairs))
    vals_sel = [vrange[i] for i in chosen]
    numeric_v = all(klass(v) == 'number' for v in vrange)
    count = run('COUNTIFS', f'=COUNTIFS({args})', len(chosen))
    want_sum = math.fsum(vals_sel) if numeric_v else None
    total = run('SUMIFS', f'=SUMIFS({vname},{args})', want_sum)
    avg = run('AVERAGEIFS', f'=AVERAGEIFS({vname},{args})',
              (math.fsum(vals_sel) / len(vals_sel) if vals_sel else '#DIV/0!')
              if numeric_v else None)
    run('MAXIFS', f'=MAXIFS({vname},{args})',
        (max(vals_sel) if vals_sel else 0) if numeric_v else None)
    run('MINIFS', f'=MINIFS({vname},{args})',
        (min(vals_sel) if vals_sel else 0) if numeric_v else None)
    # AVERAGEIFS * COUNTIFS = SUMIFS over numeric data
    if numeric_v and all(klass(v) == 'number' for v in (count, total, avg)) \
            and count:
        if not math.isclose(avg * count, total, rel_tol=1e-9, abs_tol=1e-9):
            rec.fail(f'law:avg*count=sum:{tag}', case,
                     f'{avg}*{count} != {total}')
    if len(pairs) == 1:
        rid = pairs[0][0]
        # one-pair IFS equals the IF form
        for f_if, f_ifs, with_v in (('COUNTIF', 'COUNTIFS', False),
                                    ('SUMIF', 'SUMIFS', True),
                                    ('AVERAGEIF', 'AVERAGEIFS', True)):
            a = run(f_if, f'={f_if}({names[rid]},M1' +
                    (f',{vname})' if with_v else ')'))
            b = run(f_ifs, f'={f_ifs}(' + (f'{vname},' if with_v else '') +
                    f'{names[rid]},M1)')
            if a is not None and b is not None and a != b and not (
                    klass(a) == klass(b) == 'number' and
                    math.isclose(a, b, rel_tol=1e-9)):
                ltag = '1x1-blank-value-range' if (
                    h * w == 1 and vrange[0] is None) else tag
                rec.fail(f'law:{f_if}={f_ifs}:{ltag}', case,
                         f'{f_if} = {a!r} but {f_ifs} = {b!r}')
        # "=x" and "<>x" partition the range
        c = pairs[0][1]
        p = parse_criteria(c)
        if p is not None and form == 'fast' and ERRSET.isdisjoint(
                v for v in ranges[rid] if isinstance(v, str)):
            op, val = p
            base = c if klass(c) == 'number' else c[len(op):] if (
                isinstance(c, str) and c.startswith(op)) else c
            cells['N1'] = '=' + str(base) if not isinstance(base, str) \
                else '=' + base
            cells['N2'] = '<>' + (str(base) if not isinstance(base, str)
                                  else base)
            a = run('COUNTIF', f'=COUNTIF({names[rid]},N1)')
            b = run('COUNTIF', f'=COUNTIF({names[rid]},N2)')
            if klass(a) == 'number' and klass(b) == 'number' and a + b != n:
                numtext = isinstance(val, float) and any(
                    isinstance(x, str) and matches(x, val) is True
                    for x in ranges[rid])
                rec.fail(f'law:partition:{crit_class(cells["N1"])}:' +
                         ('numeric-text-equal-to-criterion' if numtext
                          else rc),
                         case,
                         f'COUNTIF(r,{cells["N1"]!r})={a} + '
                         f'COUNTIF(r,{cells["N2"]!r})={b} != {n} over '
                         f'{ranges[rid]}')
    else:
        # criteria pairs commute
        rev = ','.join(f'{names[rid]},M{k + 1}'
                       for k, (rid, _) in reversed(list(enumerate(pairs))))
        a = run('COUNTIFS', f'=COUNTIFS({rev})')
        if a is not None and count is not None and a != count:
            rec.fail(f'law:commute:{tag}', case,
                     f'COUNTIFS({args})={count!r} but reversed {a!r}')
        b = run('SUMIFS', f'=SUMIFS({vname},{rev})')
        if b is not None and total is not None and b != total and not (
                klass(b) == klass(total) == 'number' and
                math.isclose(b, total, rel_tol=1e-9)):
            rec.fail(f'law:commute:{tag}', case,
                     f'SUMIFS={total!r} but reversed {b!r}')
    # text criteria compare case-insensitively: neither the case of the text
    # cells nor the case of the criterion may change the selection (also for
    # "op text" criteria, whose ordering itself is not modelled here)
    if form == 'fast' and klass(count) == 'number' and any(
            isinstance(c, str) and c.swapcase() != c for _, c in pairs):
        def swapped(v):
            return v.swapcase() if klass(v) == 'text' else v
        for what, other in (
                ('cells', {k: (swapped(v) if k[0] in COLS + WCOLS else v)
                           for k, v in cells.items()}),
                ('criteria', {k: (swapped(v) if k[0] == 'M' else v)
                              for k, v in cells.items()})):
            try:
                got = env.eval(f'=COUNTIFS({args})', other)
            except Exception as exc:
                rec.fail(f'COUNTIFS:raises:{exc_key(exc)}:{etag}', case,
                         f'case-swapped {what}: {exc!r}'[:300])
                continue
            if got != count:
                rec.fail(f'law:case-insensitive:{what}:{tag}', case,
                         f'COUNTIFS({args}) crit={[c for _, c in pairs]} '
                         f'over {crange} = {count!r}, with the case of the '
                         f'{what} swapped = {got!r}')
        rec.label('law:case-insensitive')
    # size mismatch -> #VALUE!
    if h * w > 1:
        short = rng(VCOLS, h - 1, w) if h > 1 else rng(VCOLS, h, w - 1)
        run('SUMIFS', f'=SUMIFS({short},{names[0]},M1)',
            pred=lambda g: g == '#VALUE!')
        if len(pairs) > 1:
            shortc = rng(WCOLS, h - 1, w) if h > 1 else rng(WCOLS, h, w - 1)
            run('COUNTIFS', f'=COUNTIFS({names[0]},M1,{shortc},M2)',
                pred=lambda g: g == '#VALUE!')


# -- generators -----------------------------------------------------------

def criteria_strategy():
    num = st.sampled_from(NUMS)
    text = st.sampled_from([t for t in TEXTS if t.strip()] +
                           ['a*', '*b*', '?', 'a?', '*', 'A*', 'ap*e',
                            '~*', 'a~*', 'x~~y', '??', '*pie', 'ABC',
                            '(x*', 'a.?', '[*', 'a+*', 'x~*y', 'a\\*',
                            # head and tail that overlap in a short cell
                            'a*a', 'ab*b', 'a*ab', 'ab*ab', 'b*b', 'ab*ba',
                            'a*b*a', 'aa*a',
                            # a ? behind a *: at least one more character
                            'a*?', '*??', 'a*?c', '*?b', 'ab*?', '*?*'])
    ops = st.sampled_from(['', '=', '<>', '<', '<=', '>', '>='])
    eqops = st.sampled_from(['', '=', '<>'])
    return st.one_of(
        num,
        num.map(str),
        st.tuples(ops, num).map(lambda t: f'{t[0]}{t[1]}'),
        text,
        st.tuples(eqops, text).map(lambda t: t[0] + t[1]),
        st.tuples(eqops, text).map(lambda t: t[0] + t[1]),
        st.tuples(st.sampled_from(['<', '>', '>=']), text).map(
            lambda t: t[0] + t[1]),
        st.sampled_from(['', '=', '<>']),
        st.sampled_from([True, False]),
    )


def resolve(crange, pairs):
    """criteria given as ['from', index, mode] are derived from a cell of the
    criteria range so that selections are usually proper and non-empty"""
    out = []
    for rid, c in pairs:
        if isinstance(c, (list, tuple)) and len(c) == 3 and c[0] == 'from':
            rng_vals = crange if rid == 0 else crange[::-1]
            x = rng_vals[c[1] % len(rng_vals)]
            mode = c[2]
            if klass(x) == 'number':
                c = [x, f'<>{x}', f'>{x}', f'<={x}', f'={x}', str(x)][mode % 6]
            elif klass(x) == 'text' and x.strip():
                c = [x, '<>' + x, x[0] + '*', '<>' + x[0] + '*',
                     '?' + x[1:], '=' + x.upper(), x + '*' + x[-1],
                     x[0] + '*' + x][mode % 8]
            elif klass(x) == 'blank':
                c = ['', '=', '<>', '', '<>', '='][mode % 6]
            else:
                c = ['<>', 'a*', 0, '>0', '<>a', ''][mode % 6]
        out.append((rid, c))
    return out


def case_strategy():
    cell = st.one_of(st.sampled_from(CELLS), st.sampled_from(NUMS),
                     st.sampled_from(TEXTS))
    clean = st.one_of(st.sampled_from(NUMS + TEXTS + [True, False, None]),
                      st.sampled_from(NUMS))
    vnum = st.one_of(st.sampled_from(NUMS), st.integers(-100, 100))
    vmix = st.one_of(vnum, st.sampled_from(['x', '7', True, None, '#N/A']))
    return st.tuples(st.integers(1, 5), st.integers(1, 3)).flatmap(
        lambda hw: st.tuples(
            st.just(hw[0]), st.just(hw[1]),
            st.one_of(
                st.lists(clean, min_size=hw[0] * hw[1],
                         max_size=hw[0] * hw[1]),
                st.lists(clean, min_size=hw[0] * hw[1],
                         max_size=hw[0] * hw[1]),
                st.lists(cell, min_size=hw[0] * hw[1],
                         max_size=hw[0] * hw[1])),
            st.one_of(
                st.lists(vnum, min_size=hw[0] * hw[1],
                         max_size=hw[0] * hw[1]),
                st.lists(vnum, min_size=hw[0] * hw[1],
                         max_size=hw[0] * hw[1]),
                st.lists(vmix, min_size=hw[0] * hw[1],
                         max_size=hw[0] * hw[1])),
            pairs_strategy()))


def pairs_strategy():
    derived = st.tuples(st.just('from'), st.integers(0, 14),
                        st.integers(0, 7))
    # (one_of flattens nested one_of, so weight through a selector)
    one = st.tuples(st.integers(0, 1), st.integers(0, 3).flatmap(
        lambda k: criteria_strategy() if k == 0 else derived))
    loose = st.tuples(st.integers(0, 1), st.one_of(
        derived, st.sampled_from(['<>', '<>zzz', '>-1000', '<>12345', '*',
                                  '<1000'])))
    return st.one_of(
        st.lists(one, min_size=1, max_size=1),
        st.lists(one, min_size=1, max_size=1),
        st.tuples(one, loose).map(list),
        st.tuples(loose, one).map(list),
        st.tuples(one, loose, loose).map(list),
        st.tuples(loose, one, loose).map(list),
        st.lists(one, min_size=2, max_size=3))


FIXED = [
    (3, 1, [1, 'a', None], [1, 2, 3], [(0, 'a*')]),
    (3, 1, [1, 'a', True], [1, 2, 3], [(0, '<>a*')]),
    (2, 2, ['abc', 'ABC', 'abd', 5], [1, 2, 3, 4], [(0, 'ab?')]),
    (2, 2, ['abc', 'ABC', 'abd', 5], [1, 2, 3, 4], [(0, '<>ab?')]),
    (3, 1, [1, 2, 3], [10, 20, 30], [(0, '>1'), (1, '<3')]),
    (3, 1, ['#N/A', 2, 'x'], [10, 20, 30], [(0, 2)]),
    (3, 1, [1, 2, 3], ['#DIV/0!', 20, 30], [(0, '>0')]),
    (2, 1, [None, ''], [1, 2], [(0, '')]),
    (2, 1, [None, 0], [1, 2], [(0, '<>')]),
]


PURITY_TEMPLATES = ['=COUNTIF(A1:B1,C1)',
                    '=SUMIF(A1:B1,C1)',
                    '=COUNTIFS(A1:B1,C1)',
                    '=COUNTIF(A1:B1,"="&C1)',
                    '=COUNTIF(A1:B1,"<>"&C1)']


def shards(tier, seed):
    out = [dict(kind='fixed')]
    n_h = 14 if tier == 'quick' else 16
    for k in range(n_h):
        out.append(dict(kind='hyp', seed=seed * 1000 + k,
                        n=600 if tier == 'quick' else 60000))
    out.append(dict(kind='workbook', seed=seed * 1000 + 77,
                    n=60 if tier == 'quick' else 4000))
    out.append(dict(kind='purity'))
    return out


def _body(rec, ctx, form='fast'):
    def body(case):
        h, w, crange, vrange, pairs = case
        before = dict(rec.fail_counts)
        check_case(ctx, h, w, list(crange), list(vrange),
                   resolve(list(crange), pairs), form=form)
        for k, v in rec.fail_counts.items():
            if v != before.get(k, 0):
                return k, rec.failures[k][2]
        return None
    return body


def run_shard(shard, rec):
    if shard['kind'] == 'purity':
        from vlib import purity
        return purity.run(rec, ID, PURITY_TEMPLATES)
    kind = shard['kind']
    ctx = (rec, FastEnv())
    if kind == 'fixed':
        for h, w, cr, vr, pairs in FIXED:
            check_case(ctx, h, w, cr, vr, pairs)
    elif kind == 'hyp':
        hyp.search(rec, case_strategy(), _body(rec, ctx), shard['n'],
                   shard['seed'])
    elif kind == 'workbook':
        hyp.search(rec, case_strategy(), _body(rec, ctx, 'workbook'),
                   shard['n'], shard['seed'])


def replay(case, rec):
    from vlib import purity
    if purity.is_case(case):
        return purity.replay(rec, ID, case)
    ctx = (rec, FastEnv())
    if isinstance(case, list):
        h, w, crange, vrange, pairs = case
        form = 'fast'
    else:
        h, w, crange, vrange, pairs = (case['h'], case['w'], case['crange'],
                                       case['vrange'], case['pairs'])
        form = case.get('form', 'fast')
    check_case(ctx, h, w, list(crange), list(vrange),
               resolve(list(crange), [tuple(p) for p in pairs]), form=form)
