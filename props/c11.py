"""C11 - address algebra: parse/print round trip and rectangle lattice laws.

Oracles: print->parse identity; agreement of A1 / R1C1 / tuple notations;
a set-of-cells model for membership, enumeration, intersection and bounding
box; modular arithmetic for offsets."""

import itertools

from hypothesis import strategies as st

from vlib import hyp
from vlib.xl import exc_key

ID = 'C11'
LEVEL = 'exploration'
TECHNIQUE = ('exhaustive enumeration of all rectangle pairs/triples on a 4x4 '
             'grid and of boundary coordinates x sheet-name classes, plus '
             'Hypothesis-sampled coordinates, names and offsets, against a '
             'set-of-cells model and round-trip identities')
LEVEL_TEXT = ('Exploration with complete enumeration of the small-grid '
              'lattice (100 rectangles: 10^4 pairs, 10^6 triples in the '
              'thorough tier) and of all boundary coordinates; the laws are '
              'purely algebraic so a complete small model plus boundary and '
              'sampled large coordinates is the right level.')
LEVEL_NOTE = ('Trusts the set-of-cells model in props/c11.py; sheet names are '
              'drawn from the names Excel accepts.')
RULE = ('(a) cell/range addresses built from boundary+sampled coordinates x '
        'sheet names (plain, spaces, apostrophes, digits, cell-like, '
        'unicode, "!") are printed (address, quoted_address, abs_address) '
        'and parsed back; A1, R1C1 (absolute and relative from boundary '
        'anchors) and tuple construction are compared; (b) every ordered '
        'pair (and triple) of the 100 rectangles of a 4x4 grid for & and **, '
        'membership and enumeration; (c) offsets from boundary anchors. '
        'Non-trivial = quoted/special sheet name, a boundary coordinate, or '
        'overlapping-but-unequal rectangles; distinct = distinct case tuple')
ASSUMPTIONS = [
    'sheet names are legal in Excel: 1..31 chars, none of \\ / ? * [ ] :, '
    'not starting or ending with an apostrophe',
]
MIN_NONTRIVIAL = {'quick': 5000, 'thorough': 50000}

MAX_COL, MAX_ROW = 16384, 1048576
B_COLS = [1, 2, 25, 26, 27, 28, 51, 52, 53, 701, 702, 703, 704, 16383, 16384]
B_ROWS = [1, 2, 9, 10, 11, 99, 100, 1048575, 1048576]
SHEETS = ['S', 'Sheet1', 'Sheet 1', "it's", "it's a", "a''b", "o' ' x", 'A1',
          'R1C1', 'RC', 'C', 'R', '1', '2020', 'a.b', 'a-b', 'été',
          '日本 語', 'a$b', 'TRUE', 'x' * 31, 'a,b', 'a(b)', 'a&b', 'a=b',
          'a"b', 'a#b', ' lead', 'trail ', 'a+b', 'a;b', 'a{b}', 'a%b',
          'a!b', 'a b!c', '!', 'x y!']


def col_letters(n):
    s = ''
    while n:
        n, r = divmod(n - 1, 26)
        s = chr(65 + r) + s
    return s


def sheet_class(name):
    if '!' in name:
        return 'bang'
    if "'" in name:
        return 'apostrophe'
    if ' ' in name:
        return 'space'
    if name.isalnum() and name.isascii():
        return 'plain'
    return 'special'


def A():
    import pycel.excelutil as u
    return u


def check_roundtrip(rec, sheet, c1, r1, c2=None, r2=None, label='boundary'):
    u = A()
    is_range = c2 is not None and (c1, r1) != (c2, r2)
    case = dict(kind='roundtrip', sheet=sheet, c1=c1, r1=r1, c2=c2, r2=r2)
    boundary = any(v in (1, MAX_COL) for v in (c1, c2) if v) or any(
        v in (1, MAX_ROW) for v in (r1, r2) if v)
    rec.case(key=('rt', sheet, c1, r1, c2, r2),
             nontrivial=sheet_class(sheet) != 'plain' or boundary,
             labels=(f'roundtrip:{label}', f'sheet:{sheet_class(sheet)}',
                     'range' if is_range else 'cell'),
             sample=case)
    sc = sheet_class(sheet)
    kind = 'range' if is_range else 'cell'

    def fail(what, msg):
        rec.fail(f'roundtrip:{what}:{kind}:{sc}', case, msg)

    try:
        if is_range:
            a = u.AddressRange((c1, r1, c2, r2), sheet=sheet)
            coord = f'{col_letters(c1)}{r1}:{col_letters(c2)}{r2}'
            r1c1 = f'R{r1}C{c1}:R{r2}C{c2}'
        else:
            a = u.AddressCell((c1, r1, c1, r1), sheet=sheet)
            coord = f'{col_letters(c1)}{r1}'
            r1c1 = f'R{r1}C{c1}'
    except Exception as exc:
        fail(f'construct-raises:{exc_key(exc)}', f'tuple construction: {exc!r}')
        return
    if a.coordinate != coord or a.sheet != sheet:
        fail('tuple', f'tuple form gives {a!r}, expected {sheet}!{coord}')
    for form in ('address', 'quoted_address', 'abs_address'):
        try:
            text = getattr(a, form)
            back = u.AddressRange.create(text)
        except Exception as exc:
            fail(f'{form}:raises:{exc_key(exc)}',
                 f'{form} of {sheet!r}!{coord} does not parse: {exc!r}')
            continue
        if back != a or back.sheet != sheet or back.coordinate != coord:
            fail(form, f'{form} {text!r} parses to {back!r}, not {a!r}')
    # notations: A1 text, R1C1 text, tuple
    for text, what in ((coord, 'a1'), (r1c1, 'r1c1')):
        try:
            b = u.AddressRange.create(text, sheet=sheet)
        except Exception as exc:
            fail(f'{what}:raises:{exc_key(exc)}', f'{text!r}: {exc!r}')
            continue
        if b != a:
            fail(what, f'{what} text {text!r} gives {b!r}, tuple gives {a!r}')
    # without a sheet
    try:
        b = u.AddressRange.create(coord)
        if b.coordinate != coord or b.sheet != '' or b.address != coord:
            fail('nosheet', f'{coord!r} parses to {b!r}')
        c = u.AddressRange(b, sheet=sheet)
        if c != a:
            fail('addsheet', f'adding sheet to {b!r} gives {c!r}')
    except Exception as exc:
        fail(f'nosheet:raises:{exc_key(exc)}', f'{coord!r}: {exc!r}')


def check_relative_r1c1(rec, ac, ar, dr, dc):
    u = A()
    anchor = u.AddressCell((ac, ar, ac, ar), sheet='S')
    case = dict(kind='r1c1rel', ac=ac, ar=ar, dr=dr, dc=dc)
    er = (ar + dr - 1) % MAX_ROW + 1
    ec = (ac + dc - 1) % MAX_COL + 1
    wraps = er != ar + dr or ec != ac + dc
    rec.case(key=('rel', ac, ar, dr, dc), nontrivial=wraps or
             ac in (1, MAX_COL) or ar in (1, MAX_ROW),
             labels=('r1c1-relative', 'wraps' if wraps else 'no-wrap'),
             sample=case)
    text = f'R[{dr}]C[{dc}]' if (dr or dc) else 'RC'
    try:
        got = u.AddressRange.create(text, cell=anchor, sheet='S')
        off = anchor.address_at_offset(row_inc=dr, col_inc=dc)
        ic, ir = anchor.inc_col(dc), anchor.inc_row(dr)
    except Exception as exc:
        rec.fail(f'r1c1rel:raises:{exc_key(exc)}', case, repr(exc))
        return
    exp = u.AddressCell((ec, er, ec, er), sheet='S')
    if got != exp:
        rec.fail('r1c1rel:value' + (':wrap' if wraps else ''), case,
                 f'{text} from {anchor} gives {got}, expected {exp}')
    if off != exp or (ic, ir) != (ec, er):
        rec.fail('offset:value' + (':wrap' if wraps else ''), case,
                 f'offset ({dr},{dc}) from {anchor} gives {off} / '
                 f'({ic},{ir}), expected {exp}')


# -- lattice on a grid --------------------------------------------------------

def grid_rects(n=4, c0=1, r0=1):
    out = []
    for ca in range(n):
        for cb in range(ca, n):
            for ra in range(n):
                for rb in range(ra, n):
                    out.append((c0 + ca, r0 + ra, c0 + cb, r0 + rb))
    return out


def make(rect, sheet='S'):
    u = A()
    c1, r1, c2, r2 = rect
    text = f'{col_letters(c1)}{r1}:{col_letters(c2)}{r2}'
    return u.AddressRange.create(text, sheet=sheet)


def cells_of(rect):
    c1, r1, c2, r2 = rect
    return frozenset((c, r) for c in range(c1, c2 + 1)
                     for r in range(r1, r2 + 1))


def rect_of(addr):
    return (addr.start.col_idx, addr.start.row, addr.end.col_idx, addr.end.row)


def model_and(a, b):
    c1, r1 = max(a[0], b[0]), max(a[1], b[1])
    c2, r2 = min(a[2], b[2]), min(a[3], b[3])
    return None if c1 > c2 or r1 > r2 else (c1, r1, c2, r2)


def model_pow(a, b):
    return (min(a[0], b[0]), min(a[1], b[1]), max(a[2], b[2]), max(a[3], b[3]))


def check_enumeration(rec, rect, sheet='S'):
    u = A()
    case = dict(kind='enum', rect=list(rect), sheet=sheet)
    c1, r1, c2, r2 = rect
    h, w = r2 - r1 + 1, c2 - c1 + 1
    rec.case(key=('enum', rect, sheet), nontrivial=h * w > 1,
             labels=('enumeration',), sample=case)
    try:
        a = make(rect, sheet)
        size = tuple(a.size)
        rr = a.resolve_range
        rows = [list(r) for r in a.rows] if a.is_range else [[a]]
        cols = [list(c) for c in a.cols] if a.is_range else [[a]]
    except Exception as exc:
        rec.fail(f'enum:raises:{exc_key(exc)}', case, repr(exc))
        return
    want = [[(c, r) for c in range(c1, c2 + 1)] for r in range(r1, r2 + 1)]
    got = [[(x.col_idx, x.row) for x in row] for row in rr]
    if size != (h, w):
        rec.fail('enum:size', case, f'size {size} expected {(h, w)}')
    if got != want:
        rec.fail('enum:resolve_range', case, f'{got} expected {want}')
    if [[(x.col_idx, x.row) for x in row] for row in rows] != want:
        rec.fail('enum:rows', case, 'rows disagrees')
    want_cols = [[(c, r) for r in range(r1, r2 + 1)]
                 for c in range(c1, c2 + 1)]
    if [[(x.col_idx, x.row) for x in col] for col in cols] != want_cols:
        rec.fail('enum:cols', case, 'cols disagrees')
    if a.is_range:
        # the same when the rows / columns are collected first, read later
        late_rows = [[(x.col_idx, x.row) for x in row] for row in list(a.rows)]
        late_cols = [[(x.col_idx, x.row) for x in col] for col in list(a.cols)]
        if late_rows != want:
            rec.fail('enum:rows:collected-first', case,
                     f'list(rows) then read: {late_rows} expected {want}')
        if late_cols != want_cols:
            rec.fail('enum:cols:collected-first', case,
                     f'list(cols) then read: {late_cols} expected '
                     f'{want_cols}')
    if any(x.sheet != sheet for row in rr for x in row):
        rec.fail('enum:sheet', case, 'member cell lost the sheet')
    inside = cells_of(rect)
    for c in range(max(1, c1 - 1), c2 + 2):
        for r in range(max(1, r1 - 1), r2 + 2):
            cell = u.AddressCell((c, r, c, r), sheet=sheet)
            if (cell in a) != ((c, r) in inside):
                rec.fail('enum:contains', case,
                         f'{cell} in {a} is {cell in a}')


def check_pair(rec, ra, rb, table=None):
    u = A()
    case = dict(kind='pair', a=list(ra), b=list(rb))
    ia = model_and(ra, rb)
    overlap = ia is not None and ra != rb
    rec.case(key=('pair', ra, rb), nontrivial=overlap,
             labels=('lattice-pair', 'overlap' if ia else 'disjoint'),
             sample=case)
    a, b = make(ra), make(rb)
    try:
        got_and = a & b
        got_pow = a ** b
    except Exception as exc:
        rec.fail(f'lattice:raises:{exc_key(exc)}', case, repr(exc))
        return
    if ia is None:
        if got_and != u.NULL_ERROR:
            rec.fail('lattice:and:disjoint', case,
                     f'{a} & {b} = {got_and!r}, expected #NULL!')
    else:
        if not u.is_address(got_and) or rect_of(got_and) != ia or \
                got_and.sheet != 'S':
            rec.fail('lattice:and:value', case,
                     f'{a} & {b} = {got_and!r}, expected {ia}')
        elif got_and != make(ia):
            rec.fail('lattice:and:form', case,
                     f'{a} & {b} = {got_and!r} is not equal to {make(ia)!r}')
    ib = model_pow(ra, rb)
    if not u.is_address(got_pow) or rect_of(got_pow) != ib:
        rec.fail('lattice:pow:value', case,
                 f'{a} ** {b} = {got_pow!r}, expected {ib}')
    elif got_pow != make(ib):
        rec.fail('lattice:pow:form', case,
                 f'{a} ** {b} = {got_pow!r} is not equal to {make(ib)!r}')
    if table is not None:
        table[ra, rb] = (got_and, got_pow)
    # idempotence / absorption on the real objects
    if ra == rb:
        if got_and != a or got_pow != a:
            rec.fail('lattice:idempotent', case, f'{a}&{a}={got_and!r}')
    else:
        try:
            if u.is_address(got_pow) and (a & got_pow) != a:
                rec.fail('lattice:absorption', case,
                         f'{a} & ({a}**{b}) = {a & got_pow!r}')
            if u.is_address(got_and) and (a ** got_and) != a:
                rec.fail('lattice:absorption', case,
                         f'{a} ** ({a}&{b}) = {a ** got_and!r}')
        except Exception as exc:
            rec.fail(f'lattice:absorption:raises:{exc_key(exc)}', case,
                     repr(exc))


def check_pair_sheets(rec, ra, rb):
    """the same algebra when only one operand (or none) names the sheet: the
    result is the same whichever side carries the sheet name, and it is on
    that sheet"""
    u = A()
    ia, ib = model_and(ra, rb), model_pow(ra, rb)
    for sa, sb in (('', 'S'), ('S', ''), ('', '')):
        case = dict(kind='pair-sheets', a=list(ra), b=list(rb), sa=sa, sb=sb)
        rec.case(key=('pair-sheets', ra, rb, sa, sb), nontrivial=sa != sb,
                 labels=('lattice-pair-sheets',), sample=case)
        a, b = make(ra, sa), make(rb, sb)
        try:
            res = {'&': (a & b, b & a), '**': (a ** b, b ** a)}
        except Exception as exc:
            rec.fail(f'lattice:sheets:raises:{exc_key(exc)}', case, repr(exc))
            continue
        for op, (x, y) in res.items():
            want = ia if op == '&' else ib
            if x != y or (u.is_address(x) and u.is_address(y) and
                          x.sheet != y.sheet):
                rec.fail(f'lattice:sheets:commutative:{op}', case,
                         f'{a!r} {op} {b!r} = {x!r} but swapped = {y!r}')
            elif want is None:
                if x != u.NULL_ERROR:
                    rec.fail(f'lattice:sheets:value:{op}', case,
                             f'{a!r} {op} {b!r} = {x!r}, expected #NULL!')
            elif not u.is_address(x) or rect_of(x) != want or \
                    x.sheet != (sa or sb):
                rec.fail(f'lattice:sheets:value:{op}', case,
                         f'{a!r} {op} {b!r} = {x!r}, expected {want} on '
                         f'sheet {(sa or sb)!r}')


def check_triple(rec, ra, rb, rc):
    u = A()
    a, b, c = make(ra), make(rb), make(rc)
    case = dict(kind='triple', a=list(ra), b=list(rb), c=list(rc))
    try:
        left = (a ** b) ** c
        right = a ** (b ** c)
        if left != right:
            rec.fail('lattice:pow:assoc', case, f'{left!r} != {right!r}')
        ab, bc = a & b, b & c
        # (#NULL! is the bottom of the lattice: an empty intersection stays
        # empty when it is intersected again)
        if True:
            left, right = ab & c, a & bc
            if left != right:
                rec.fail('lattice:and:assoc', case, f'{left!r} != {right!r}')
            inner = model_and(ra, rb)
            m = model_and(inner, rc) if inner is not None else None
            if (m is None) != (left == u.NULL_ERROR):
                rec.fail('lattice:and:assoc-value', case, f'{left!r} vs {m}')
    except Exception as exc:
        rec.fail(f'lattice:assoc:raises:{exc_key(exc)}', case, repr(exc))


def check_sheets(rec, ra, rb):
    u = A()
    case = dict(kind='sheets', a=list(ra), b=list(rb))
    rec.case(key=('sheets', ra, rb), nontrivial=True, labels=('sheets',),
             sample=case)
    try:
        a, b = make(ra, 'S'), make(rb, 'T')
        n = make(rb, '')
        if (a & b) != u.VALUE_ERROR or (a ** b) != u.VALUE_ERROR:
            rec.fail('lattice:sheets:value', case,
                     f'{a} & {b} = {a & b!r}; ** = {a ** b!r}')
        r = a ** n
        if not u.is_address(r) or r.sheet != 'S' or \
                rect_of(r) != model_pow(ra, rb):
            rec.fail('lattice:sheets:inherit', case, f'{a} ** {n} = {r!r}')
    except Exception as exc:
        rec.fail(f'lattice:sheets:raises:{exc_key(exc)}', case, repr(exc))


# -- shards -------------------------------------------------------------------

def legal_sheet_names():
    bad = '\\/?*[]:'
    return st.text(
        alphabet=st.one_of(
            st.sampled_from(list("abXZ019 '!.-_$&#(),;+=\"%")),
            st.characters(codec='utf-8', exclude_categories=('Cs', 'Cc'),
                          exclude_characters=bad)),
        min_size=1, max_size=31).filter(
        lambda s: not s.startswith("'") and not s.endswith("'") and
        not any(c in bad for c in s))


def shards(tier, seed):
    out = [dict(kind='roundtrip-boundary', part=k, parts=8) for k in range(8)]
    out.append(dict(kind='relative'))
    out.append(dict(kind='grid-pairs'))
    nt = 16
    for k in range(nt):
        out.append(dict(kind='grid-triples', part=k, parts=nt,
                        stride=40 if tier == 'quick' else 1))
    n_h = 4 if tier == 'quick' else 16
    for k in range(n_h):
        out.append(dict(kind='hyp', seed=seed * 1000 + k,
                        n=1500 if tier == 'quick' else 100000))
    return out


def run_shard(shard, rec):
    kind = shard['kind']
    if kind == 'roundtrip-boundary':
        combos = list(itertools.product(SHEETS, B_COLS, B_ROWS))
        for sheet, c, r in combos[shard['part']::shard['parts']]:
            check_roundtrip(rec, sheet, c, r)
            # a range from this corner to each larger boundary corner
            for c2, r2 in ((MAX_COL, MAX_ROW), (c + 1, r), (c, r + 1),
                           (min(MAX_COL, c + 26), min(MAX_ROW, r + 90))):
                if c2 <= MAX_COL and r2 <= MAX_ROW and (c2, r2) != (c, r):
                    if (c2, r2) == (MAX_COL, MAX_ROW) and (c, r) == (1, 1):
                        continue
                    check_roundtrip(rec, sheet, c, r, c2, r2)
        rec.exhaustive.append('boundary coordinates x sheet-name pool')
    elif kind == 'relative':
        offs = [0, 1, -1, 2, -2, 25, -26, 16383, -16383, 16384, -16384,
                1048575, -1048575, 1048576, -1048576, 20000, -20000]
        for ac, ar in itertools.product([1, 2, 26, 27, 16383, 16384],
                                        [1, 2, 10, 1048575, 1048576]):
            for dr, dc in itertools.product(offs, offs):
                if abs(dc) > 20000:
                    continue
                check_relative_r1c1(rec, ac, ar, dr, dc)
        rec.exhaustive.append('relative R1C1 / offsets from boundary anchors')
    elif kind == 'grid-pairs':
        rects = grid_rects()
        for r in rects:
            check_enumeration(rec, r)
        for ra, rb in itertools.product(rects, repeat=2):
            check_pair(rec, ra, rb)
            check_pair_sheets(rec, ra, rb)
        for ra, rb in itertools.product(rects[::7], repeat=2):
            check_sheets(rec, ra, rb)
        # the same grid anchored at the far corner of the sheet
        far = grid_rects(3, MAX_COL - 2, MAX_ROW - 2)
        for r in far:
            check_enumeration(rec, r)
        for ra, rb in itertools.product(far, repeat=2):
            check_pair(rec, ra, rb)
        rec.exhaustive.append('all rectangle pairs on the 4x4 grid')
    elif kind == 'grid-triples':
        rects = grid_rects()
        n = 0
        idx = 0
        for ra in rects:
            for rb in rects:
                for rc in rects:
                    if idx % shard['parts'] == shard['part'] and \
                            (idx // shard['parts']) % shard['stride'] == 0:
                        check_triple(rec, ra, rb, rc)
                        n += 1
                    idx += 1
        rec.bulk(n, n, 'lattice-triple')
        if shard['stride'] == 1:
            rec.exhaustive.append('all rectangle triples on the 4x4 grid '
                                  f'part {shard["part"]}')
    elif kind == 'hyp':
        cols = st.one_of(st.sampled_from(B_COLS), st.integers(1, MAX_COL))
        rows = st.one_of(st.sampled_from(B_ROWS), st.integers(1, MAX_ROW))
        rect = st.tuples(cols, rows, cols, rows).map(
            lambda t: (min(t[0], t[2]), min(t[1], t[3]),
                       max(t[0], t[2]), max(t[1], t[3])))
        small = st.tuples(st.integers(1, 60), st.integers(1, 60),
                          st.integers(0, 6), st.integers(0, 6)).map(
            lambda t: (t[0], t[1], t[0] + t[2], t[1] + t[3]))
        strategy = st.one_of(
            st.tuples(st.just('rt'), legal_sheet_names(), rect),
            st.tuples(st.just('pair'), st.one_of(rect, small),
                      st.one_of(rect, small)),
            st.tuples(st.just('pair'), small, small),
            st.tuples(st.just('enum'), small,
                      st.sampled_from(['S', 'Sheet 1', "it's"])),
            st.tuples(st.just('rel'), cols, rows,
                      st.integers(-MAX_ROW * 2, MAX_ROW * 2),
                      st.integers(-MAX_COL * 2, MAX_COL * 2)),
        )

        def body(case):
            before = dict(rec.fail_counts)
            if case[0] == 'rt':
                c1, r1, c2, r2 = case[2]
                if (c1, r1, c2, r2) == (1, 1, MAX_COL, MAX_ROW):
                    return None
                check_roundtrip(rec, case[1], c1, r1, c2, r2, label='sampled')
            elif case[0] == 'pair':
                check_pair(rec, tuple(case[1]), tuple(case[2]))
            elif case[0] == 'enum':
                check_enumeration(rec, tuple(case[1]), case[2])
            else:
                check_relative_r1c1(rec, case[1], case[2], case[3], case[4])
            for k, v in rec.fail_counts.items():
                if v != before.get(k, 0):
                    return k, rec.failures[k][2]
            return None
        hyp.search(rec, strategy, body, shard['n'], shard['seed'])


def replay(case, rec):
    if isinstance(case, list):
        kind = case[0]
        if kind == 'rt':
            check_roundtrip(rec, case[1], *case[2])
        elif kind == 'pair':
            check_pair(rec, tuple(case[1]), tuple(case[2]))
        elif kind == 'enum':
            check_enumeration(rec, tuple(case[1]), case[2])
        else:
            check_relative_r1c1(rec, *case[1:5])
        return
    kind = case['kind']
    if kind == 'roundtrip':
        check_roundtrip(rec, case['sheet'], case['c1'], case['r1'],
                        case.get('c2'), case.get('r2'))
    elif kind == 'r1c1rel':
        check_relative_r1c1(rec, case['ac'], case['ar'], case['dr'],
                            case['dc'])
    elif kind == 'enum':
        check_enumeration(rec, tuple(case['rect']), case.get('sheet', 'S'))
    elif kind == 'pair':
        check_pair(rec, tuple(case['a']), tuple(case['b']))
    elif kind == 'pair-sheets':
        check_pair_sheets(rec, tuple(case['a']), tuple(case['b']))
    elif kind == 'triple':
        check_triple(rec, tuple(case['a']), tuple(case['b']),
                     tuple(case['c']))
    elif kind == 'sheets':
        check_sheets(rec, tuple(case['a']), tuple(case['b']))
