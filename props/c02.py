"""C02 - formula translation is meaning-preserving.

Structure oracle: the value of the compiled formula must equal a tree-walk of
the generated AST that applies pycel's *own* runtime operator function and
library functions to already evaluated operands.  Operator semantics are thus
factored out (they are C10's subject): any disagreement is a tokenizer /
shunting-yard / emitter / AST-rewrite defect.  Literal oracle: literals denote
themselves."""

import itertools
import math

from hypothesis import strategies as st

from vlib import hyp
from vlib import xlgrammar as g
from vlib.xl import FastEnv, compile_spec, exc_key, klass, same

ID = 'C02'
LEVEL = 'exploration'
TECHNIQUE = ('grammar-based generation (Hypothesis recursive strategy + '
             'exhaustive depth<=2 enumeration) with a differential oracle: '
             'compiled formula vs tree-walk of the generated AST using '
             "pycel's own operator/function runtime; literal round trip; "
             'the same property driven by atheris/libFuzzer through '
             "Hypothesis' fuzz_one_input with coverage of pycel.excelformula")
LEVEL_TEXT = ('Exploration: every tree of depth <=2 over 4 leaves and all 14 '
              'operators is enumerated (thorough; strided in quick), trees to '
              '12 leaves with calls/parentheses/all literal kinds are sampled '
              'and rendered in varying styles; right level because the '
              'property quantifies over an unbounded grammar.')
LEVEL_NOTE = ('Trusts the renderer/reference parser pair in vlib/xlgrammar.py '
              '(self-checked: parse(render(t)) == t for every generated tree) '
              "and pycel's runtime operator function as the semantics of a "
              'single operator (checked separately by C10).')
RULE = ('trees from the formula grammar (literals, refs, parens, unary -, +, '
        'postfix %, 12 binary operators, 25 scalar functions) x rendering '
        'style x environment of 4 cells; exhaustive for depth<=2 over 4 '
        'leaves; non-trivial = the tree has operators of >=2 different '
        'precedence levels, or a unary/postfix operator adjacent to a binary '
        'one, or a text literal with a character outside [A-Za-z0-9 ]; '
        'distinct = distinct (rendered formula, environment)')
ASSUMPTIONS = [
    'formulas are rendered the way Excel stores them (upper-case TRUE/FALSE, '
    'no leading zeros, "" for an embedded quote)',
    'whitespace is only generated next to binary operators, commas and '
    'inside parentheses, where it can not be the intersection operator',
    'functions are scalar, eager ones; reference-taking functions are C04',
]
MIN_NONTRIVIAL = {'quick': 5000, 'thorough': 100000}

OPNAME = {'+': 'Add', '-': 'Sub', '*': 'Mult', '/': 'Div', '^': 'Pow',
          '&': 'BitAnd', '=': 'Eq', '<>': 'NotEq', '<': 'Lt', '<=': 'LtE',
          '>': 'Gt', '>=': 'GtE'}

ENV_POOL = [0, 1, 2, -3, 0.5, 2.5, 'x', '1', '', True, False, None, '#N/A',
            '#DIV/0!', 10, -1]

_runtime = {}


def runtime():
    """pycel's operator fixup and loaded library functions"""
    if not _runtime:
        import importlib
        from pycel.excelformula import ExcelFormula, FunctionNode
        from pycel.excelutil import EMPTY, build_operator_operand_fixup
        from pycel.lib.function_helpers import load_functions
        modules = tuple(importlib.import_module(m)
                        for m in ExcelFormula.default_modules)
        ns = {'_C_': None, '_R_': None}
        names = {FunctionNode.func_map.get(n.lower(), n.lower())
                 for n in g.FUNCS}
        missing = load_functions(names - {'true', 'false', 'pi'}, ns, modules)
        assert not missing, missing
        _runtime.update(
            fixup=build_operator_operand_fixup(lambda *a: None),
            ns=ns, EMPTY=EMPTY, func_map=FunctionNode.func_map)
    return _runtime


class WalkError(Exception):
    pass


def immoderate_power(base, exponent):
    """a power whose result has more than ~400 digits: python computes exact
    big integers for it (100^100^3 takes minutes, one level more for ever);
    the properties are stated for moderate magnitudes"""
    def num(v):
        if isinstance(v, bool) or v is None:
            return float(bool(v))
        try:
            return float(v)
        except (TypeError, ValueError, OverflowError):
            return None
    b, e = num(base), num(exponent)
    if b is None or e is None or b != b or e != e:
        return b is None and isinstance(base, int) or \
            e is None and isinstance(exponent, int)      # int beyond float
    if abs(b) in (0.0, 1.0) or e == 0:
        return False
    if abs(b) == float('inf') or abs(e) == float('inf'):
        return True
    return abs(e) * abs(math.log10(abs(b))) > 400


def walk(t, env):
    rt = runtime()
    k = t[0]
    if k in ('num', 'text', 'bool', 'err'):
        return t[1]
    if k == 'ref':
        return env.get(t[1])
    if k in ('paren', 'pos'):
        return walk(t[1], env)
    if k == 'neg':
        return rt['fixup'](rt['EMPTY'], 'USub', walk(t[1], env))
    if k == 'pct':
        return rt['fixup'](walk(t[1], env), 'Div', 100)
    if k == 'bin':
        left = walk(t[2], env)
        right = walk(t[3], env)
        if t[1] == '^' and immoderate_power(left, right):
            raise WalkError('immoderate power')
        return rt['fixup'](left, OPNAME[t[1]], right)
    if k == 'omit':
        return None
    if k == 'call':
        name = t[1].lower()
        if name == 'true':
            return True
        if name == 'false':
            return False
        if name == 'pi':
            return math.pi
        f = rt['ns'][rt['func_map'].get(name, name)]
        args = [walk(a, env) for a in t[2]]
        return f(*args)
    raise ValueError(t)


def reference(t, env):
    v = walk(t, env)
    if v is None or (isinstance(v, str) and v == runtime()['EMPTY']):
        return 0
    if isinstance(v, (tuple, list)):
        raise WalkError('array result')
    return v


def check_tree(rec, fenv, tree, style_bits, env, form='fast'):
    """Returns (class_key, msg) or None"""
    runtime()
    text = g.render(tree, g.Style(style_bits))
    # the oracle's idea of the parse is checked against itself first
    back = g.strip_parens(g.parse(text))
    if back != g.strip_parens(tree):
        from vlib.runner import HarnessError
        raise HarnessError(f'renderer/parser disagree on {text!r}: '
                           f'{tree} vs {back}')
    case = dict(kind='tree', tree=tree, style=list(style_bits), env=env,
                formula=text, form=form)
    nt = g.nontrivial(tree)
    ops = g.ops_of(tree)
    labels = [f'form:{form}']
    if any(o == 'neg' for o in ops) and '^' in ops:
        labels.append('has:neg-with-^')
    if 'pct' in ops:
        labels.append('has:%')
    if 'call' in ops:
        labels.append('has:call')
    if 'omit' in ops:
        labels.append('has:omitted-arg')
    if any(t for t in g.texts_of(tree) if not t.isalnum()):
        labels.append('has:special-text')
    if "'paren'" in str(tree):
        labels.append('has:redundant-parens')
    rec.case(key=(text, repr(sorted(env.items()))), nontrivial=nt,
             labels=labels, sample=dict(formula=text, env=env))
    try:
        exp = reference(tree, env)
        exp_exc = None
    except WalkError as exc:
        rec.label(f'excluded:{str(exc).replace(" ", "-")}')
        return None
    except Exception as exc:
        exp, exp_exc = None, exc
    try:
        with rec.watch(f'struct:{g.shape(tree)}:hang', case, limit=60):
            if form == 'fast':
                got = fenv.eval(text, env)
            else:
                cells = {k: v for k, v in env.items() if v is not None}
                cells['Z9'] = text
                got = compile_spec(
                    {'sheets': {'S': cells}}).evaluate('S!Z9')
        got_exc = None
    except Exception as exc:
        got, got_exc = None, exc
    key = None
    if exp_exc is not None and got_exc is not None:
        return None
    if got_exc is not None:
        key = f'struct:{g.shape(tree)}:raises:{exc_key(got_exc)}'
        msg = f'{text!r} with {env} raised {got_exc!r}'[:600]
    elif exp_exc is not None:
        key = f'struct:{g.shape(tree)}:no-raise'
        msg = (f'{text!r} with {env} gave {got!r} but the tree-walk raised '
               f'{exp_exc!r}')[:600]
    elif not same(exp, got, rel=1e-12):
        key = f'struct:{g.shape(tree)}:value'
        msg = f'{text!r} with {env}: compiled gives {got!r}, grammar {exp!r}'
    if key:
        rec.fail(key, case, msg)
        return key, msg
    return None


# -- literals ----------------------------------------------------------------

def check_literal(rec, lit_kind, value, form='fast'):
    if lit_kind == 'text':
        text = '="' + value.replace('"', '""') + '"'
        exp = value
    elif lit_kind == 'num':
        text = '=' + g._num_lit(value)
        exp = value
    elif lit_kind == 'bool':
        text = '=TRUE' if value else '=FALSE'
        exp = value
    elif lit_kind == 'err':
        text = '=' + value
        exp = value
    elif lit_kind == 'join':
        text = '=' + '&'.join('"' + v.replace('"', '""') + '"' for v in value)
        exp = ''.join(value)
    else:
        raise ValueError(lit_kind)
    case = dict(kind='literal', lit=lit_kind, value=value, form=form)
    special = lit_kind in ('text', 'join') and any(
        not (c.isalnum() or c == ' ') for c in (
            value if lit_kind == 'text' else ''.join(value)))
    rec.case(key=(text, form), nontrivial=special or lit_kind != 'text',
             labels=(f'literal:{lit_kind}', f'form:{form}'),
             sample=dict(formula=text))
    try:
        if form == 'fast':
            got = FastEnv().eval(text)
        else:
            got = compile_spec(
                {'sheets': {'S': {'A1': text}}}).evaluate('S!A1')
    except Exception as exc:
        cls = 'plain'
        if lit_kind in ('text', 'join'):
            s = value if lit_kind == 'text' else ''.join(value)
            cls = ','.join(sorted({repr(c) for c in s
                                   if c in '"\\\n\r\t{}\''})) or 'plain'
        key = f'literal:{lit_kind}:raises:{exc_key(exc)}:{cls}'
        msg = f'{text!r} raised {exc!r}'[:500]
        rec.fail(key, case, msg)
        return key, msg
    if lit_kind in ('text', 'join') and exp == '':
        ok = got in ('', 0)   # a formula yielding empty text
    else:
        ok = same(exp, got, rel=0) and type(exp) is type(got) or (
            lit_kind == 'num' and same(exp, got, rel=0))
    if not ok:
        s = exp if isinstance(exp, str) else ''
        cls = ','.join(sorted({repr(c) for c in s
                               if c in '"\\\n\r\t{}\''})) or 'plain'
        key = f'literal:{lit_kind}:value:{cls}'
        msg = f'{text!r} evaluates to {got!r}, not {exp!r}'
        rec.fail(key, case, msg)
        return key, msg
    return None


# -- exhaustive small trees -------------------------------------------------

SMALL_LEAVES = [['num', 2], ['num', 0.5], ['ref', 'A1'], ['ref', 'B1']]
SMALL_ENVS = [{'A1': 3, 'B1': -2}, {'A1': '4', 'B1': None}]


def depth1():
    out = list(SMALL_LEAVES)
    for op in g.BINOPS:
        for a, b in itertools.product(SMALL_LEAVES, repeat=2):
            out.append(['bin', op, a, b])
    for u in ('neg', 'pct'):
        for a in SMALL_LEAVES:
            out.append([u, a])
    return out


def depth2_count():
    n = len(depth1())
    return n * n * len(g.BINOPS) + 2 * n


def depth2_iter(part, parts, stride):
    d1 = depth1()
    idx = 0
    for op in g.BINOPS:
        for a in d1:
            for b in d1:
                if idx % parts == part and (idx // parts) % stride == 0:
                    yield ['bin', op, a, b]
                idx += 1
    for u in ('neg', 'pct'):
        for a in d1:
            if idx % parts == part and (idx // parts) % stride == 0:
                yield [u, a]
            idx += 1


# -- shards ------------------------------------------------------------------

def shards(tier, seed):
    out = []
    parts = 16
    for k in range(parts):
        out.append(dict(kind='small', part=k, parts=parts,
                        stride=23 if tier == 'quick' else 1))
    n_h = 12 if tier == 'quick' else 16
    for k in range(n_h):
        out.append(dict(kind='hyp', seed=seed * 1000 + k,
                        n=1500 if tier == 'quick' else 100000))
    out.append(dict(kind='literals', seed=seed * 1000 + 500,
                    n=3000 if tier == 'quick' else 200000))
    out.append(dict(kind='workbook', seed=seed * 1000 + 600,
                    n=300 if tier == 'quick' else 10000))
    # coverage-guided (atheris / libFuzzer) over the same structured property
    for k in range(1 if tier == 'quick' else 4):
        out.append(dict(kind='atheris', seed=seed * 1000 + 700 + k,
                        runs=4000 if tier == 'quick' else 250000))
    return out


def run_atheris(shard, rec):
    """libFuzzer drives Hypothesis' byte-level entry point of the tree
    property (vlib/fuzz_c02.py) in a sub-process; coverage feedback comes from
    pycel.excelformula / pycel.excelutil.  atheris is installed from the
    offline wheelhouse into /verif/.deps on first use."""
    import json
    import os
    import random
    import subprocess
    import sys
    from vlib.xl import TempDir
    root = os.path.dirname(os.path.dirname(os.path.abspath(__file__)))
    deps = os.path.join(root, '.deps')
    env = dict(os.environ)
    env['PYTHONPATH'] = env.get('PYTHONPATH', '') + os.pathsep + deps
    probe = [sys.executable, '-c', 'import atheris']
    if subprocess.run(probe, env=env, capture_output=True).returncode:
        subprocess.run([sys.executable, '-m', 'pip', 'install', '-q',
                        '--no-index', '--find-links',
                        '/opt/veriftools/wheels', '--target', deps,
                        'atheris'], capture_output=True)
        if subprocess.run(probe, env=env, capture_output=True).returncode:
            rec.note('atheris could not be installed from the wheelhouse; '
                     'coverage-guided shard skipped')
            rec.label('atheris:unavailable')
            return
    with TempDir() as tmp:
        corpus = os.path.join(tmp, 'corpus')
        os.mkdir(corpus)
        # seed inputs: raw entropy long enough for one generated example
        # (an empty corpus never grows: without an example there is no
        # coverage to reward a longer input)
        prng = random.Random(shard['seed'])    # corpus bytes, not test data
        for i in range(8):
            with open(os.path.join(corpus, f's{i}'), 'wb') as f:
                f.write(bytes(prng.getrandbits(8)
                              for _ in range(512 * (1 + i % 4))))
        out = os.path.join(tmp, 'out.json')
        cmd = [sys.executable, '-m', 'vlib.fuzz_c02', out,
               f'-runs={shard["runs"]}', f'-seed={shard["seed"]}',
               '-max_len=4096', '-len_control=0', '-timeout=120',
               '-print_final_stats=1', corpus]
        try:
            proc = subprocess.run(cmd, env=env, capture_output=True,
                                  text=True, cwd=root,
                                  timeout=shard['runs'] / 40 + 300)
            code, log = proc.returncode, proc.stderr + proc.stdout
        except subprocess.TimeoutExpired:
            rec.note('atheris shard hit its wall-clock budget: inconclusive')
            rec.label('atheris:budget-exhausted')
            return
        data = {}
        if os.path.exists(out):
            with open(out) as f:
                data = json.load(f)
        rec.bulk(data.get('evaluations', 0), 0, 'atheris:evaluations')
        rec.label('atheris:nontrivial-not-deduplicated',
                  data.get('nontrivial', 0))
        for line in log.splitlines():
            if line.startswith('#') and 'DONE' in line:
                rec.note(f'atheris seed {shard["seed"]}: {line.strip()}')
        if data.get('klass'):
            # re-run the saved case in this process: the recorder decides
            case = data['case']
            res = check_tree(rec, FastEnv(), case['tree'],
                             tuple(case['style']), case['env'])
            if res is None:
                rec.fail(data['klass'] + ':not-reproducible', case,
                         data['msg'])
        elif code != 0:
            rec.note(f'atheris exited {code} without a property failure: '
                     f'{log[-300:]!r}')
            rec.label('atheris:fuzzer-error')


def run_shard(shard, rec):
    kind = shard['kind']
    if kind == 'atheris':
        return run_atheris(shard, rec)
    fenv = FastEnv()
    if kind == 'small':
        n = 0
        for tree in depth2_iter(shard['part'], shard['parts'],
                                shard['stride']):
            for env in SMALL_ENVS:
                check_tree(rec, fenv, tree, (), env)
            n += 1
            if n % 2000 == 0:
                fenv = FastEnv()    # bound the formula cache
        if shard['stride'] == 1:
            rec.exhaustive.append(
                f'all trees of depth<=2 over 4 leaves, part '
                f'{shard["part"]}/{shard["parts"]} of {depth2_count()}')
    elif kind == 'hyp':
        strategy = st.tuples(
            g.trees(), g.styles(),
            st.fixed_dictionaries({r: st.sampled_from(ENV_POOL)
                                   for r in g.REFS}))
        state = {'n': 0, 'env': fenv}

        def body(case):
            tree, style, env = case
            state['n'] += 1
            if state['n'] % 2000 == 0:
                state['env'] = FastEnv()
            return check_tree(rec, state['env'], tree, style, env)
        hyp.search(rec, strategy, body, shard['n'], shard['seed'])
    elif kind == 'literals':
        for e in ('#N/A', '#DIV/0!', '#VALUE!', '#REF!', '#NAME?', '#NUM!',
                  '#NULL!'):
            check_literal(rec, 'err', e)
        for b in (True, False):
            check_literal(rec, 'bool', b)
        for c in g.TEXT_ALPHABET:
            check_literal(rec, 'text', c)
            check_literal(rec, 'text', 'a' + c + 'b')
            check_literal(rec, 'text', c + c)
        strategy = st.one_of(
            st.tuples(st.just('text'),
                      st.text(alphabet=g.TEXT_ALPHABET, max_size=8)),
            st.tuples(st.just('text'), st.text(
                alphabet=st.characters(codec='utf-8',
                                       exclude_categories=('Cs',),
                                       exclude_characters='\x00'),
                max_size=6)),
            st.tuples(st.just('num'), st.one_of(
                st.integers(0, 10 ** 9),
                st.builds(lambda k, j: k / 10 ** j,
                          st.integers(0, 10 ** 7), st.integers(1, 6)),
                st.sampled_from([1e20, 1.5e-7, 1e-5, 123456789012.0]))),
            st.tuples(st.just('join'), st.lists(
                st.text(alphabet=g.TEXT_ALPHABET, max_size=3),
                min_size=2, max_size=4)),
        )
        hyp.search(rec, strategy,
                   lambda c: check_literal(rec, c[0], c[1]),
                   shard['n'], shard['seed'])
    elif kind == 'workbook':
        strategy = st.one_of(
            st.tuples(st.just('tree'), g.trees(max_leaves=8), g.styles(),
                      st.fixed_dictionaries(
                          {r: st.sampled_from(ENV_POOL) for r in g.REFS})),
            st.tuples(st.just('text'),
                      st.text(alphabet=g.TEXT_ALPHABET, min_size=1,
                              max_size=6)),
        )

        def body(case):
            if case[0] == 'tree':
                return check_tree(rec, None, case[1], case[2], case[3],
                                  form='workbook')
            # XML can not carry most control characters
            if any(ord(c) < 32 and c not in '\n\t\r' for c in case[1]):
                return None
            return check_literal(rec, 'text', case[1], form='workbook')
        hyp.search(rec, strategy, body, shard['n'], shard['seed'])


def replay(case, rec):
    if case.get('kind') == 'literal' or 'lit' in case:
        v = case['value']
        check_literal(rec, case['lit'], v, form=case.get('form', 'fast'))
        return
    if isinstance(case, list):     # hypothesis tuple form
        if case[0] == 'tree':
            check_tree(rec, FastEnv(), case[1], case[2], case[3],
                       form='workbook')
        elif case[0] in ('text', 'num', 'join', 'bool', 'err'):
            check_literal(rec, case[0], case[1])
        else:
            check_tree(rec, FastEnv(), case[0], case[1], case[2])
        return
    check_tree(rec, FastEnv(), case['tree'], case.get('style', ()),
               case['env'], form=case.get('form', 'fast'))
