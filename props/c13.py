"""C13 - array (CSE) formulas: pointwise lifting and exact target shape.

Oracle: element (i, j) of the evaluated target must equal the scalar formula
applied to the broadcast elements (computed through pycel's scalar path, so
operator semantics are factored out), #N/A outside the result, repetition of
scalar / single-row / single-column results; every member cell must show its
own element."""

import itertools
import threading

from hypothesis import strategies as st

from vlib import hyp
from vlib.xl import ERRORS, FastEnv, compile_spec, exc_key, klass, same

ID = 'C13'
LEVEL = 'exploration'
TECHNIQUE = ('exhaustive enumeration of operand/broadcast/target shapes up '
             'to 4x4 for two operators, Hypothesis-sampled operators, lifted '
             'functions and element values for the rest; differential oracle '
             'array evaluation vs scalar evaluation of every element'
             '; every case also as first evaluation of a new thread, a subset in an iterative model after set_value, sheet names that need quoting')
LEVEL_TEXT = ('Exploration, complete over the 16 x 4 x 16 shape triples for '
              '+ and & (thorough: every operator), sampled over lifted '
              'functions and values incl. errors and text; each case is a '
              'real compiled workbook with a CSE array formula.')
LEVEL_NOTE = ('Trusts pycel\'s scalar evaluation of the same operator / '
              'function as the meaning of one element (checked by C10, C19, '
              'C20) and the shape rules restated in props/c13.py.')
RULE = ('array formula "=X op Y" or "=F(X, Y)" entered over a target range; '
        'X is h x w (<=4x4), Y is the same shape, a scalar, a single row or '
        'a single column, target is any shape <=4x4; values from numbers, '
        'text and errors; non-trivial = result shape differs from the '
        'target shape or the operands have different shapes; distinct = '
        'distinct (formula, shapes, values)')
ASSUMPTIONS = ['functions receive equally shaped arrays or scalars only '
               '(the statement restricts row/column broadcasting to '
               'operators)']
MIN_NONTRIVIAL = {'quick': 2000, 'thorough': 20000}

COLS = 'ABCD'
COLS2 = 'FGHI'
TCOLS = 'KLMN'
OPS = ['+', '-', '*', '/', '^', '&', '=', '<', '>=', '<>']
# (formula template, needs numeric second arg) X = first array, Y = second
FUNCS = [
    ('ABS({X})', 1), ('ROUND({X},{Y})', 2), ('MOD({X},{Y})', 2),
    ('INT({X})', 1), ('SIGN({X})', 1), ('POWER({X},{Y})', 2),
    ('LEFT({X},{Y})', 2), ('UPPER({X})', 1), ('LEN({X})', 1),
    ('MID({X},1,{Y})', 2), ('RIGHT({X},{Y})', 2), ('SQRT({X})', 1),
    ('ROUNDUP({X},{Y})', 2), ('TRUNC({X})', 1), ('EXACT({X},{Y})', 2),
    ('IF({X}>1,{Y},{X})', 2), ('IF({X},{Y},"no")', 2),
    ('IFERROR({X},{Y})', 2), ('IFERROR({X}/{Y},{X})', 2),
    ('IFNA({X},{Y})', 2), ('IFS({X}>2,{Y},TRUE,{X})', 2),
    ('CEILING({X},{Y})', 2), ('FLOOR({X},{Y})', 2), ('LOG({X},{Y})', 2),
    ('SUBSTITUTE({X},"a",{Y})', 2), ('REPLACE({X},1,{Y},"z")', 2),
    ('FIND({Y},{X})', 2), ('LOWER({X})', 1), ('TRIM({X})', 1),
    ('ATAN2({X},{Y})', 2), ('BITAND({X},{Y})', 2), ('EVEN({X})', 1),
    ('TEXT({X},"0.0")', 1), ('TRUNC({X},{Y})', 2), ('CHOOSE({X},7,9)', 1),
    ('YEARFRAC({X},{Y})', 2),
    # type-sensitive: TRUE and 1, FALSE and 0 are different elements
    ('ISNUMBER({X})', 1), ('ISLOGICAL({X})', 1), ('ISTEXT({X})', 1),
    ('ISNONTEXT({X})', 1), ('ISERROR({X})', 1), ('ISNA({X})', 1),
    ('ISODD({X})', 1), ('ISEVEN({X})', 1), ('N({X})', 1),
    ('IF(ISNUMBER({X}),{Y},"n")', 2),
]
KINDS = ['same', 'scalar', 'row', 'col', 'first-scalar']
SHEET_NAMES = ['S', 'S', 'S', 'My Sheet', 'S-1', "Bob's", 'x,y', '1st',
               'a.b', 'S', 'é', 'a&b', 'S']
VALUES = [0, 1, 2, 3, -1, 2.5, 10, -4, 7, 0.5, 'a', 'Bc', '12', '#DIV/0!',
          '#N/A', 100, 4, 9, True, False, True, False, 1, 0, 1.0, '1']
# python-equal but Excel-different neighbours (row-major and across a row end)
ALIAS_RUN = [1, True, 0, False, 1.0, True, '1', 1, False, 0.0, 2, True, 1]


def shape_of_second(kind, h, w):
    return {'same': (h, w), 'scalar': (1, 1), 'row': (1, w),
            'col': (h, 1), 'first-scalar': (h, w)}[kind]


def shape_of_first(kind, h, w):
    return (1, 1) if kind == 'first-scalar' else (h, w)


def rng(cols, h, w):
    if h == 1 and w == 1:
        return f'{cols[0]}1'
    return f'{cols[0]}1:{cols[w - 1]}{h}'


def fill(cols, h, w, vals, offset):
    return {f'{cols[j]}{i + 1}': vals[(offset + i * w + j) % len(vals)]
            for i in range(h) for j in range(w)}


def normalise(result, th, tw):
    """evaluate() drops dimensions of size 1"""
    if th == 1 and tw == 1:
        return [[result]]
    if th == 1:
        return [list(result)]
    if tw == 1:
        return [[r] for r in result]
    return [list(r) for r in result]


def check_case(rec, senv, template, kind, h, w, th, tw, vals, form='op'):
    """template uses {X} and {Y}"""
    h2, w2 = shape_of_second(kind, h, w)
    h, w = shape_of_first(kind, h, w)
    xs = fill(COLS, h, w, vals, 0)
    ys = fill(COLS2, h2, w2, vals, 5)
    X, Y = rng(COLS, h, w), rng(COLS2, h2, w2)
    formula = '=' + template.format(X=X, Y=Y)
    target = rng(TCOLS, th, tw) if (th, tw) != (1, 1) else None
    case = dict(kind=kind, template=template, h=max(h, h2), w=max(w, w2),
                th=th, tw=tw, vals=list(vals), form=form)
    uses_y = '{Y}' in template
    rh, rw = (h, w)
    if uses_y:
        rh, rw = max(h, h2), max(w, w2)
    nontrivial = (rh, rw) != (th, tw) or (uses_y and (h2, w2) != (h, w))
    rec.case(key=(template, kind, h, w, th, tw, repr(vals)),
             nontrivial=nontrivial,
             labels=(f'form:{form}', f'second:{kind if uses_y else "none"}',
                     'shape:' + ('equal' if (rh, rw) == (th, tw) else
                                 'trim' if rh >= th and rw >= tw else
                                 'grow')),
             sample=dict(formula=formula, target=target or 'K1', **case))
    tag = f'{form}:{kind if uses_y else "unary"}'
    if form == 'func':
        tag = f'func:{template.split("(")[0]}:{kind if uses_y else "unary"}'
    if (th, tw) == (1, 1):
        tag += ':target1x1'
    has_scalar_error = uses_y and kind == 'scalar' and \
        klass(ys[f'{COLS2[0]}1']) == 'error'
    if has_scalar_error:
        tag += ':scalar-error'
    cells = dict(xs)
    cells.update(ys)
    # the workbook's only sheet carries a name that does or does not need
    # quoting in the member cells' generated formulas
    S = SHEET_NAMES[(len(formula) + 3 * h + 5 * w + 7 * th + tw) %
                    len(SHEET_NAMES)]
    case['sheet'] = S
    spec = {'sheets': {S: cells}}
    if target is None:
        # a one-cell array formula
        spec['arrays'] = [dict(sheet=S, ref='K1:K1', formula=formula)]
        target = 'K1'
    else:
        spec['arrays'] = [dict(sheet=S, ref=target, formula=formula)]
    # expected elements through scalar evaluation
    expected = []
    scalar_formula = '=' + template.format(X='A1', Y='B1')
    for i in range(th):
        row = []
        for j in range(tw):
            inside = (rh == 1 or i < rh) and (rw == 1 or j < rw)
            if not inside:
                row.append('#N/A')
                continue
            xi = xs[f'{COLS[j if w > 1 else 0]}{(i if h > 1 else 0) + 1}']
            yi = ys[f'{COLS2[j if w2 > 1 else 0]}{(i if h2 > 1 else 0) + 1}']
            try:
                row.append(senv.eval(scalar_formula, {'A1': xi, 'B1': yi}))
            except Exception as exc:
                row.append(('raises', exc_key(exc)))
        expected.append(row)
    # elements that are trimmed away are still computed by the array
    # formula: if the scalar application raises for any of them the array
    # formula may raise as well
    for i, j in itertools.product(range(rh), range(rw)):
        if i < th and j < tw:
            continue
        xi = xs[f'{COLS[j if w > 1 else 0]}{(i if h > 1 else 0) + 1}']
        yi = ys[f'{COLS2[j if w2 > 1 else 0]}{(i if h2 > 1 else 0) + 1}']
        try:
            senv.eval(scalar_formula, {'A1': xi, 'B1': yi})
        except Exception:
            expected.append([('raises', 'trimmed element')])
            break
    if any(isinstance(v, tuple) for row in expected for v in row):
        rec.label('excluded:scalar-application-raises')
        return
    try:
        model = compile_spec(spec)
        got = normalise(model.evaluate(f'{S}!{target}'), th, tw)
    except Exception as exc:
        rec.fail(f'{tag}:raises:{exc_key(exc)}', case,
                 f'{formula} over {target} raised {exc!r}'[:400])
        return
    if len(got) != th or any(len(r) != tw for r in got):
        rec.fail(f'{tag}:target-shape', case,
                 f'{formula} entered over {th}x{tw} evaluates to '
                 f'{len(got)}x{len(got[0]) if got else 0}: {got}')
        return
    for i in range(th):
        for j in range(tw):
            e, g = expected[i][j], got[i][j]
            if not (same(e, g) or (e in (None, '') and g in (None, 0, ''))):
                where = 'fill' if e == '#N/A' and not (
                    (rh == 1 or i < rh) and (rw == 1 or j < rw)) else 'element'
                rec.fail(f'{tag}:{where}', case,
                         f'{formula} over {target}: element ({i},{j}) = '
                         f'{g!r}, scalar application gives {e!r}; whole '
                         f'result {got}')
                return
    # every member cell shows its own element
    try:
        fresh = compile_spec(spec)
        for i, j in itertools.product(range(th), range(tw)):
            addr = f'{S}!{TCOLS[j]}{i + 1}'
            g = fresh.evaluate(addr)
            e = expected[i][j]
            if not (same(e, g) or (e in (None, '') and g in (None, 0, ''))):
                rec.fail(f'{tag}:member-cell', case,
                         f'{formula} over {target}: member {addr} = {g!r}, '
                         f'expected {e!r}')
                return
    except Exception as exc:
        rec.fail(f'{tag}:member-raises:{exc_key(exc)}', case,
                 f'{formula} over {target}: member cell raised {exc!r}'[:400])
        return
    # ... also when this is the very first formula a thread evaluates (the
    # array-formula context is per-thread state that is set up lazily)
    box = {}

    def first_in_thread():
        try:
            box['got'] = normalise(
                compile_spec(spec).evaluate(f'{S}!{target}'), th, tw)
        except Exception as exc:        # noqa
            box['exc'] = exc
    worker = threading.Thread(target=first_in_thread)
    worker.start()
    worker.join()
    rec.label('observed-on-fresh-thread')
    if 'exc' in box:
        rec.fail(f'{tag}:fresh-thread:raises:{exc_key(box["exc"])}', case,
                 f'{formula} over {target} as first evaluation of a new '
                 f'thread raised {box["exc"]!r}'[:400])
    elif box['got'] != got and not all(
            same(a, b) for ra, rb in zip(box['got'], got)
            for a, b in zip(ra, rb)):
        rec.fail(f'{tag}:fresh-thread', case,
                 f'{formula} over {target}: {got} on the main thread, '
                 f'{box["got"]} as first evaluation of a new thread')
        return
    # ... and follows its operands in an iterative model too (where nothing
    # is reset by set_value and every evaluate recalculates)
    if (len(formula) + h + w + th + tw) % 4 == 0:
        coord = f'{COLS[0]}1'
        newval = 77 if cells.get(coord) != 77 else 78
        cells2 = dict(cells)
        cells2[coord] = newval
        try:
            want2 = normalise(compile_spec(dict(spec, sheets={S: cells2}))
                              .evaluate(f'{S}!{target}'), th, tw)
        except Exception:       # noqa
            # the scalar application raises for the new operand in a plain
            # model as well (e.g. BITAND(77, 0.5)): outside the domain, as
            # for the first evaluation above
            rec.label('excluded:scalar-raises-after-set_value')
            return
        try:
            it = compile_spec(spec, cycles=True)
            it.evaluate(f'{S}!{target}')
            it.set_value(f'{S}!{coord}', newval)
            got2 = normalise(it.evaluate(f'{S}!{target}'), th, tw)
            members = [[it.evaluate(f'{S}!{TCOLS[j]}{i + 1}')
                        for j in range(tw)] for i in range(th)] \
                if (th, tw) != (1, 1) else got2
        except Exception as exc:
            rec.fail(f'{tag}:iterative:raises:{exc_key(exc)}', case,
                     f'{formula} over {target} in an iterative model raised '
                     f'{exc!r}'[:400])
            return
        rec.label('iterative-after-set_value')
        for what, grid in (('range', got2), ('member', members)):
            if not all(same(a, b) or (a in (None, '') and b in (None, 0, ''))
                       for ra, rb in zip(want2, grid)
                       for a, b in zip(ra, rb)):
                rec.fail(f'{tag}:iterative:stale-{what}', case,
                         f'{formula} over {target}, iterative model, after '
                         f'set_value({coord}, {newval}): {what} {grid}, a '
                         f'fresh model gives {want2}')
                return


SHAPES = [(h, w) for h in range(1, 5) for w in range(1, 5)]


def shards(tier, seed):
    out = []
    ex_ops = ['+', '&'] if tier == 'quick' else OPS
    for op in ex_ops:
        for k in range(4):
            out.append(dict(kind='shapes', op=op, part=k, parts=4))
    n_h = 8 if tier == 'quick' else 16
    for k in range(n_h):
        out.append(dict(kind='hyp', seed=seed * 1000 + k,
                        n=250 if tier == 'quick' else 12000))
    out.append(dict(kind='scalar-error'))
    for k in range(4):
        out.append(dict(kind='func-grid', part=k, parts=4))
    return out


def run_shard(shard, rec):
    kind = shard['kind']
    senv = FastEnv()
    if kind == 'shapes':
        triples = list(itertools.product(SHAPES, KINDS, SHAPES))
        vals = [1, 2, 3, 4, 5, 6, 7, 8, 9, 10, 11, 12, 13, 14, 15, 16, 17]
        for (h, w), k2, (th, tw) in triples[shard['part']::shard['parts']]:
            check_case(rec, senv, '{X}' + shard['op'] + '{Y}', k2, h, w,
                       th, tw, vals)
        rec.exhaustive.append(
            f'operator {shard["op"]}: all operand x broadcast x target '
            f'shapes <= 4x4 (part {shard["part"]})')
    elif kind == 'func-grid':
        # every lifted function x which argument is the array x shapes where
        # the result is smaller than, equal to and larger than the target
        grid = list(itertools.product(
            FUNCS, ['same', 'scalar', 'first-scalar'],
            [(1, 2, 1, 3), (2, 2, 3, 3), (2, 1, 3, 1), (2, 2, 2, 2),
             (1, 3, 1, 1), (3, 2, 2, 4)],
            [[1, 2, 3, 4, 5, 6, 7, 8, 9, 10, 11],
             [2, 'ab', 0, '#N/A', 3, 1, 'a', 2.5, '#DIV/0!', 4, 1],
             ALIAS_RUN]))
        for (template, nargs), k2, (h, w, th, tw), vals in \
                grid[shard['part']::shard['parts']]:
            if nargs == 1 and k2 != 'same':
                continue
            check_case(rec, senv, template, k2, h, w, th, tw, vals, 'func')
        rec.exhaustive.append('lifted-function grid part '
                              f'{shard["part"]}')
    elif kind == 'scalar-error':
        for op in ('+', '&', '='):
            for (h, w), (th, tw) in itertools.product(
                    [(2, 2), (1, 3), (3, 1)], [(2, 2), (3, 3), (1, 1)]):
                vals = [1, '#N/A', 3, 4, 5, '#DIV/0!', 7, 8]
                check_case(rec, senv, '{X}' + op + '{Y}', 'scalar', h, w,
                           th, tw, vals)
                check_case(rec, senv, '{Y}' + op + '{X}', 'scalar', h, w,
                           th, tw, vals)
    elif kind == 'hyp':
        shape = st.sampled_from(SHAPES)
        tmpl = st.one_of(
            st.sampled_from(OPS).map(lambda op: ('{X}' + op + '{Y}', 'op')),
            st.sampled_from(OPS).map(lambda op: ('{Y}' + op + '{X}', 'op')),
            st.sampled_from(FUNCS).map(lambda f: (f[0], 'func')),
            st.sampled_from(OPS).map(
                lambda op: ('({X}' + op + '{Y})*2', 'op')),
        )
        strategy = st.tuples(
            tmpl, st.sampled_from(KINDS), shape, shape,
            st.lists(st.sampled_from(VALUES), min_size=6, max_size=17))

        def body(case):
            (template, form), k2, (h, w), (th, tw), vals = case
            if form == 'func' and k2 in ('row', 'col'):
                k2 = 'same'
            if '{Y}' not in template and k2 == 'first-scalar':
                k2 = 'same'
            before = dict(rec.fail_counts)
            check_case(rec, senv, template, k2, h, w, th, tw, vals, form)
            for k, v in rec.fail_counts.items():
                if v != before.get(k, 0):
                    return k, rec.failures[k][2]
            return None
        hyp.search(rec, strategy, body, shard['n'], shard['seed'])


def replay(case, rec):
    senv = FastEnv()
    if isinstance(case, list):
        (template, form), k2, (h, w), (th, tw), vals = case
        if form == 'func' and k2 in ('row', 'col'):
            k2 = 'same'
        if '{Y}' not in template and k2 == 'first-scalar':
            k2 = 'same'
    else:
        template, form, k2 = case['template'], case.get('form', 'op'), \
            case['kind']
        h, w, th, tw, vals = (case['h'], case['w'], case['th'], case['tw'],
                              case['vals'])
    check_case(rec, senv, template, k2, h, w, th, tw, vals, form)
