"""C06 - iterative calculation: bounded, tolerance-honest, agrees with plain
evaluation.

Oracles: (a) invariant over the observed trace of a counting plugin placed in
every cycle cell: passes <= iterations; (b) if evaluate stopped early, no
cycle cell changed by more than the tolerance in the last pass and the result
is within q/(1-q) x tolerance of the fixed point computed by numpy;
(c) differential: an acyclic workbook compiled with iterative calculation on
equals a fresh non-iterative compile after any set_value history.

Why the bound holds for pycel's update order: within a pass every cycle cell
is recomputed once from a mixture of values of this pass and of the previous
pass, x_i' = b_i + sum_j a_ij y_j with y_j in {x_j, x_j'}.  With
||A||inf <= q, |x_i' - x*_i| <= q max_j |y_j - x*_j| and induction along the
evaluation order gives ||x' - x*|| <= q ||x - x*||: the pass map is a
q-contraction with fixed point x*, hence ||x_k - x*|| <= q/(1-q) ||x_k -
x_(k-1)||."""

import math

from hypothesis import strategies as st

from props import c01
from vlib import hyp, models, plugin, wbspec
from vlib.xl import TempDir, compile_spec, exc_key, klass

ID = 'C06'
LEVEL = 'exploration'
TECHNIQUE = ('Hypothesis-generated contracting linear circular systems '
             '(known fixed point from numpy.linalg.solve) with a counting '
             'plugin in every cycle cell: trace invariants (passes <= '
             'iterations, last-pass delta <= tolerance) and the q/(1-q) '
             'error bound; differential iterative-vs-plain on generated '
             'acyclic workbooks x set_value histories; cycles through plain formulas, SUMPRODUCT/SUM over the cycle range and OFFSET/INDIRECT link cells')
LEVEL_TEXT = ('Exploration (bounded safety, no liveness claim): sampled '
              'systems of 1..5 cells with ||A||inf <= q in {0.1..0.9}, '
              'written directly and through SUM/SUMPRODUCT over ranges that '
              'contain the cycle cells, x (iterations, tolerance) x writes '
              'to the constants x order in which cells enter the model; '
              'acyclic part reuses the C01 history generator.')
LEVEL_NOTE = ('Trusts numpy.linalg.solve for the fixed point and the '
              'contraction argument in the module docstring; pass counting '
              'relies on the plugin function being called once per '
              'evaluation of its cell.')
RULE = ('(i) system x = Ax + b as formulas (plain / SUMPRODUCT over the '
        'cycle range / SUM of products), iterations in 1..200, tolerance '
        'in 1e-12..1, history of writes to b and evaluations in varying '
        'first-build order; (ii) acyclic wbspec workbook compiled with '
        'cycles on x C01 history; non-trivial = a run that stopped early on '
        'tolerance after >= 3 passes, or an acyclic case with a range read '
        'and >= 1 input change; distinct = distinct case')
ASSUMPTIONS = ['coefficients and constants of moderate magnitude']
MIN_NONTRIVIAL = {'quick': 300, 'thorough': 6000}


def system_strategy():
    def build(n, q, rows, b, form):
        A = []
        for i in range(n):
            raw = rows[i][:n]
            s = sum(abs(v) for v in raw) or 1.0
            scale = q / s * rows[i][5]      # row sum of |a_ij| <= q
            A.append([round(v * scale, 6) for v in raw])
        return dict(n=n, q=q, A=A, b=b[:n], form=form)
    coeff = st.integers(-10, 10).map(float)
    return st.builds(
        build, st.integers(1, 5),
        st.sampled_from([0.1, 0.3, 0.5, 0.7, 0.9]),
        st.lists(st.tuples(coeff, coeff, coeff, coeff, coeff,
                           st.sampled_from([1.0, 1.0, 0.5, 0.9])),
                 min_size=5, max_size=5),
        st.lists(st.integers(-100, 100).map(float), min_size=5, max_size=5),
        st.sampled_from(['plain', 'sumproduct', 'sum', 'offset', 'indirect']))


def system_cells(system):
    """X in A1:An, b in B1:Bn, A in columns D.. (column D+i holds row i
    of A, so that SUMPRODUCT(A1:An, col_i) is the i-th equation)"""
    n, A, b = system['n'], system['A'], system['b']
    cells = {}
    cols = 'DEFGH'
    for i in range(n):
        cells[f'B{i + 1}'] = b[i]
        for j in range(n):
            cells[f'{cols[i]}{j + 1}'] = A[i][j]
    for i in range(n):
        if system['form'] == 'plain' or n == 1:
            expr = '+'.join(f'{cols[i]}{j + 1}*A{j + 1}' for j in range(n))
        elif system['form'] in ('offset', 'indirect'):
            # the cycle passes through cells whose whole result is a
            # computed reference to a cycle cell
            expr = '+'.join(f'{cols[i]}{j + 1}*J{j + 1}' for j in range(n))
        elif system['form'] == 'sumproduct':
            expr = f'SUMPRODUCT(A1:A{n},{cols[i]}1:{cols[i]}{n})'
        else:
            expr = 'SUM(' + ','.join(
                f'{cols[i]}{j + 1}*A{j + 1}' for j in range(n)) + \
                f')+0*SUM(A1:A{n})'
        cells[f'A{i + 1}'] = f'=VCOUNT({i},B{i + 1}+{expr})'
        if system['form'] == 'offset':
            cells[f'J{i + 1}'] = f'=OFFSET(A1,{i},0)'
        elif system['form'] == 'indirect':
            cells[f'J{i + 1}'] = f'=INDIRECT("A{i + 1}")'
    return cells


def fixed_point(A, b):
    import numpy as np
    n = len(b)
    return np.linalg.solve(np.eye(n) - np.array(A), np.array(b)).tolist()


def check_system(rec, system, iterations, tolerance, steps, explicit):
    """steps: list of ('eval', i) | ('set', i, value) on b"""
    n = system['n']
    case = dict(kind='system', system=system, iterations=iterations,
                tolerance=tolerance, steps=[list(s) for s in steps],
                explicit=explicit)
    cells = system_cells(system)
    spec = {'sheets': {'S': cells}}
    if not explicit:
        spec['iterate'] = dict(count=iterations, delta=tolerance)
    else:
        # explicit arguments must win over the workbook's own settings
        spec['iterate'] = dict(count=7, delta=0.5)
    b = list(system['b'])
    q = max(sum(abs(v) for v in row) for row in system['A'])
    early3 = False
    failure = None
    plugin.reset()
    try:
        model = compile_spec(spec, cycles=True, plugins='vlib.plugin')
        for step in steps + [('eval', 0)]:
            if step[0] == 'set':
                i = step[1] % n
                addr = f'S!B{i + 1}'
                if addr not in model.cell_map:
                    model.evaluate(addr)
                model.set_value(addr, step[2])
                b[i] = step[2]
                continue
            i = step[1] % n
            del plugin.CALLS[:]
            with rec.watch('hang:iterative-evaluate', case, limit=60):
                if explicit:
                    got = model.evaluate(f'S!A{i + 1}', iterations=iterations,
                                         tolerance=tolerance)
                else:
                    got = model.evaluate(f'S!A{i + 1}')
            trace = {}
            for tag, value in plugin.CALLS:
                trace.setdefault(tag, []).append(value)
            passes = max((len(v) for v in trace.values()), default=0)
            form = system['form']
            if passes > iterations:
                failure = (f'passes-exceed-iterations:{form}',
                           f'{passes} passes with iterations={iterations}')
                break
            if klass(got) != 'number':
                failure = (f'result-type:{form}',
                           f'evaluate gave {got!r}; trace {trace}')
                break
            if passes < iterations and passes >= 1:
                # stopped on tolerance: last-pass deltas and distance to x*
                for tag, values in trace.items():
                    if len(values) >= 2 and abs(values[-1] - values[-2]) > \
                            tolerance * (1 + 1e-5) + 1e-12:
                        failure = (
                            f'stopped-early-delta>tolerance:{form}',
                            f'cell {tag} changed {values[-2]!r} -> '
                            f'{values[-1]!r} in the last of {passes} passes '
                            f'(tolerance {tolerance}, iterations '
                            f'{iterations})')
                        break
                if failure:
                    break
                if passes >= 1:
                    xstar = fixed_point(system['A'], b)
                    bound = q / (1 - q) * tolerance * (1 + 1e-5) + 1e-7 * (
                        1 + max(abs(v) for v in xstar))
                    if abs(got - xstar[i]) > bound:
                        failure = (
                            f'stopped-early-far-from-fixed-point:{form}',
                            f'x{i} = {got!r}, fixed point {xstar[i]!r}, '
                            f'allowed distance {bound!r} after {passes} '
                            f'passes (q={q}, tol={tolerance})')
                        break
                    if passes >= 3:
                        early3 = True
            if trace.get(i) and got != trace[i][-1]:
                failure = (f'result-not-last-pass:{form}',
                           f'evaluate returned {got!r}, last computed value '
                           f'{trace[i][-1]!r}')
                break
    except Exception as exc:
        failure = (f'raises:{exc_key(exc)}:{system["form"]}',
                   f'{exc!r}'[:400])
    rec.case(key=('system', repr(system), iterations, tolerance, repr(steps),
                  explicit), nontrivial=early3,
             labels=('system', f'form:{system["form"]}', f'n:{n}',
                     'explicit-args' if explicit else 'workbook-settings'),
             sample=dict(cells={k: v for k, v in cells.items()
                                if isinstance(v, str)},
                         iterations=iterations, tolerance=tolerance,
                         steps=[list(s) for s in steps]))
    if failure:
        rec.fail('system:' + failure[0], case, failure[1])
        return 'system:' + failure[0], failure[1]
    return None


class IterRunner(c01.Runner):
    """C01's history interpreter on a model compiled with cycles on; the
    oracle stays a fresh *non-iterative* compile"""

    def __init__(self, rec, spec, tmp):
        model = compile_spec(wbspec.build_spec(spec), cycles=True)
        super().__init__(rec, spec, 'mem', tmp, model=model)
        self.config = 'iterative'


def check_acyclic(rec, spec, steps):
    case = dict(kind='acyclic', spec=spec, steps=[list(s) for s in steps])
    with TempDir() as tmp:
        try:
            runner = IterRunner(rec, spec, tmp)
        except Exception as exc:
            key = f'acyclic:build-raises:{exc_key(exc)}'
            rec.fail(key, case, repr(exc)[:300])
            return key, repr(exc)
        with rec.watch('hang:acyclic-iterative', case, limit=120):
            try:
                failure = runner.run(steps)
            except Exception as exc:
                failure = (f'raises:{exc_key(exc)}', repr(exc)[:300])
    feats = {models.feature_of(spec, a) for a in spec['formulas']}
    wrote = any(s[0] in ('set', 'alias', 'setrow', 'setlist') for s in steps)
    rec.case(key=('acyclic', repr(spec['sheets']), repr(spec['arrays']),
                  repr(steps)),
             nontrivial=wrote and bool(feats & {'range', 'unbounded', 'name',
                                                'array-member'}),
             labels=['acyclic'] + [f'has:{f}' for f in sorted(feats)],
             sample=dict(steps=[list(s) for s in steps],
                         sheets=spec['sheets'], arrays=spec['arrays']))
    if failure:
        parts = failure[0].split(':')
        key = 'acyclic:' + parts[0] + ':' + ':'.join(parts[3:])
        rec.fail(key, case, failure[1])
        return key, failure[1]
    return None


def shards(tier, seed):
    out = []
    for k in range(8):
        out.append(dict(kind='system', seed=seed * 1000 + k,
                        n=120 if tier == 'quick' else 8000))
    for k in range(8):
        out.append(dict(kind='acyclic', seed=seed * 1000 + 100 + k,
                        n=60 if tier == 'quick' else 4000))
    return out


def system_case():
    steps = st.lists(st.one_of(
        st.tuples(st.just('eval'), st.integers(0, 4)),
        st.tuples(st.just('set'), st.integers(0, 4),
                  st.integers(-100, 100).map(float))), max_size=5)
    return st.tuples(
        system_strategy(),
        st.one_of(st.integers(1, 200), st.sampled_from([1, 2, 3, 5, 50, 200])),
        st.sampled_from([1e-12, 1e-9, 1e-6, 1e-3, 0.01, 0.1, 1.0]),
        steps, st.booleans())


def run_shard(shard, rec):
    if shard['kind'] == 'system':
        hyp.search(rec, system_case(),
                   lambda c: check_system(rec, *c), shard['n'],
                   shard['seed'])
    else:
        strategy = st.tuples(wbspec.specs(max_formulas=10),
                             c01.steps_strategy())
        hyp.search(rec, strategy,
                   lambda c: check_acyclic(rec, c[0], c[1]), shard['n'],
                   shard['seed'])


def replay(case, rec):
    if isinstance(case, list):
        if len(case) == 2:
            check_acyclic(rec, case[0], [tuple(s) for s in case[1]])
        else:
            check_system(rec, case[0], case[1], case[2],
                         [tuple(s) for s in case[3]], case[4])
        return
    if case['kind'] == 'system':
        check_system(rec, case['system'], case['iterations'],
                     case['tolerance'], [tuple(s) for s in case['steps']],
                     case['explicit'])
    else:
        check_acyclic(rec, case['spec'], [tuple(s) for s in case['steps']])
