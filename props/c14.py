"""C14 - aggregates over ranges follow Excel counting rules.

Oracle: reference (numeric cells only, first error in row-major order) plus
metamorphic laws: permutation / reshape invariance, additivity over
partitions, AVERAGE = SUM/COUNT, SUBTOTAL(n) = named function, SUMPRODUCT =
sum of pointwise products; aggregates over cells that are themselves
aggregate formulas (real workbook)."""

import math

from hypothesis import strategies as st

from vlib import hyp
from vlib.xl import (ERRORS, ERRSET, FastEnv, compile_spec, exc_key, klass,
                     same)

ID = 'C14'
LEVEL = 'exploration'
TECHNIQUE = ('Hypothesis-generated mixed-type rectangles with permutations, '
             'reshapes and partitions; reference model of Excel counting '
             'rules plus metamorphic relations; nested aggregates through a '
             'real workbook'
             '; the same rectangle as bounded range / whole columns / whole rows / defined name over successive workbooks, also after to_file/from_file; order-independence probe')
LEVEL_TEXT = ('Exploration over sampled rectangles up to 5x5 from a pool '
              'covering every value class (about 40% with an error); every '
              'rectangle is also permuted, reshaped and partitioned so the '
              'laws of the statement are exercised on the same data.')
LEVEL_NOTE = ('Trusts the reference in props/c14.py.  COUNT over a range '
              'holding an error may return the count of numbers (Excel) or '
              'the first error (the statement); both are accepted.')
RULE = ('rectangle h x w <= 5x5 over {numbers, numeric text, text, logicals, '
        'blank, errors} -> SUM/AVERAGE/MIN/MAX/COUNT/SUBTOTAL/SUMPRODUCT on '
        'the range, a random permutation, 1xn / nx1 reshapes and a 2- or '
        '3-way partition; plus workbooks whose range cells are aggregate '
        'formulas; non-trivial = the range mixes >= 3 value classes; '
        'distinct = distinct (shape, values)')
ASSUMPTIONS = ['error identity under permutation is only required when one '
               'distinct error code is present',
               'sums compare with 1e-9 relative tolerance']
MIN_NONTRIVIAL = {'quick': 1500, 'thorough': 30000}

COLS = 'ABCDE'
NUMBERS = [0, 1, -1, 2, 3.5, -2.25, 10, 100, 0.1, 7, 1e6, -0.5,
           4000000000, -3000000000, 2 ** 40]
OTHERS = ['1', '2.5', 'a', '', 'TRUE', True, False, None, None]


def values_strategy():
    number = st.one_of(st.sampled_from(NUMBERS), st.integers(-1000, 1000),
                       st.builds(lambda k: k / 8, st.integers(-800, 800)))
    clean = st.one_of(number, number, st.sampled_from(OTHERS))
    dirty = st.one_of(number, st.sampled_from(OTHERS),
                      st.sampled_from(ERRORS))
    return st.tuples(st.integers(1, 5), st.integers(1, 5)).flatmap(
        lambda hw: st.tuples(
            st.just(hw[0]), st.just(hw[1]),
            st.one_of(
                st.lists(clean, min_size=hw[0] * hw[1],
                         max_size=hw[0] * hw[1]),
                st.lists(dirty, min_size=hw[0] * hw[1],
                         max_size=hw[0] * hw[1])),
            st.integers(0, 10 ** 6)))


def ref(vals):
    """(first_error, numbers) in row-major order"""
    err = next((v for v in vals if isinstance(v, str) and v in ERRSET), None)
    nums = [v for v in vals if klass(v) == 'number']
    return err, nums


def expected(func, vals):
    err, nums = ref(vals)
    if func == 'COUNT':
        return ('either', len(nums), err) if err else len(nums)
    if err:
        return err
    if func == 'SUM':
        return math.fsum(nums)
    if func == 'AVERAGE':
        return math.fsum(nums) / len(nums) if nums else '#DIV/0!'
    if func == 'MIN':
        return min(nums) if nums else 0
    if func == 'MAX':
        return max(nums) if nums else 0
    raise AssertionError(func)


def ok(exp, got, scale=0.0):
    """`scale`: sum of the magnitudes of the terms that were added.  The
    reference adds exactly (fsum), a double accumulator is off by up to
    n * 2**-53 * scale whatever the order - visible when large terms cancel
    (0.1 - 4e9 + 4e9)"""
    if isinstance(exp, tuple) and exp[0] == 'either':
        return any(ok(e, got, scale) for e in exp[1:])
    if klass(got).startswith('other'):
        return False
    if klass(exp) == 'number' and klass(got) == 'number' and \
            not isinstance(got, bool):
        return math.isclose(float(got), float(exp), rel_tol=1e-9,
                            abs_tol=max(1e-9, 1e-13 * scale))
    return same(exp, got)


def cells_for(h, w, vals, r0=1):
    return {f'{COLS[j]}{r0 + i}': vals[i * w + j]
            for i in range(h) for j in range(w)}


def rng(h, w, r0=1, c0=0):
    return f'{COLS[c0]}{r0}:{COLS[c0 + w - 1]}{r0 + h - 1}'


SUBTOTALS = {1: 'AVERAGE', 2: 'COUNT', 4: 'MAX', 5: 'MIN', 9: 'SUM'}
FUNCS = ['SUM', 'AVERAGE', 'MIN', 'MAX', 'COUNT']


def classes_of(vals):
    return {klass(v) if klass(v) != 'text' else
            ('numtext' if v.replace('.', '').isdigit() else 'text')
            for v in vals}


def check_rect(ctx, h, w, vals, seed):
    rec, env = ctx
    vals = list(vals)
    cls = classes_of(vals)
    err, nums = ref(vals)
    case = dict(kind='rect', h=h, w=w, vals=vals, seed=seed)
    rec.case(key=('rect', h, w, repr(vals)), nontrivial=len(cls) >= 3,
             labels=('rect', f'classes:{min(len(cls), 4)}',
                     'has-error' if err else 'no-error',
                     f'size:{min(h * w, 9)}'), sample=case)
    tag = ('err' if err else 'clean') + ':' + '+'.join(sorted(cls - {'number'}))
    scale = math.fsum(abs(float(n)) for n in nums)

    def run(name, formula, cells, exp, kind):
        try:
            got = env.eval(formula, cells)
        except Exception as exc:
            rec.fail(f'{name}:raises:{exc_key(exc)}:{kind}:{tag}', case,
                     f'{formula} over {vals} raised {exc!r}'[:400])
            return None
        if not ok(exp, got, scale):
            rec.fail(f'{name}:{kind}:{tag}', case,
                     f'{formula} over {h}x{w} {vals} = {got!r}, expected '
                     f'{exp!r}')
        return got

    cells = cells_for(h, w, vals)
    r = rng(h, w)
    base = {}
    for f in FUNCS:
        base[f] = run(f, f'={f}({r})', cells, expected(f, vals), 'value')
    # AVERAGE = SUM/COUNT
    if not err:
        run('AVERAGE', f'=AVERAGE({r})=SUM({r})/COUNT({r})', cells,
            True if nums else '#DIV/0!', 'sum-over-count') if (
                not nums or all(float(n).is_integer() for n in nums)) else None
    # SUBTOTAL
    for n, f in SUBTOTALS.items():
        for code in (n, 100 + n):
            run('SUBTOTAL', f'=SUBTOTAL({code},{r})', cells,
                expected(f, vals), f'{code}')
    # permutation
    import random
    rnd = random.Random(seed)
    perm = list(vals)
    rnd.shuffle(perm)
    single_err = len({v for v in vals if isinstance(v, str) and v in ERRSET}) <= 1
    pcells = cells_for(h, w, perm)
    for f in FUNCS:
        exp = expected(f, perm)
        if err and not single_err and f != 'COUNT':
            exp = ('either',) + tuple(ERRORS)
        run(f, f'={f}({r})', pcells, exp, 'permuted')
    # reshape: same cells as one row / one column (n <= 5)
    n = h * w
    if n <= 5:
        run('SUM', f'=SUM({rng(1, n)})', cells_for(1, n, vals),
            expected('SUM', vals), 'reshape-row')
        run('MAX', f'=MAX({rng(n, 1)})', cells_for(n, 1, vals),
            expected('MAX', vals), 'reshape-col')
        run('COUNT', f'=COUNT({rng(n, 1)})', cells_for(n, 1, vals),
            expected('COUNT', vals), 'reshape-col')
    # partition by rows (and by columns) into argument lists and added SUMs
    if h >= 2:
        k = 1 + seed % (h - 1)
        top, bottom = rng(k, w), rng(h - k, w, r0=1 + k)
        for f in FUNCS:
            run(f, f'={f}({top},{bottom})', cells, expected(f, vals),
                'partition-args')
        if not err:
            run('SUM', f'=SUM({top})+SUM({bottom})', cells,
                expected('SUM', vals), 'partition-additive')
            run('COUNT', f'=COUNT({top})+COUNT({bottom})', cells,
                expected('COUNT', vals), 'partition-additive')
    if w >= 3:
        a, b, c = rng(h, 1), rng(h, 1, c0=1), rng(h, w - 2, c0=2)
        # values in argument order (the first error is the first in *this*
        # traversal, not in row-major order of the whole rectangle)
        grid = [vals[i * w:(i + 1) * w] for i in range(h)]
        col = [[row[j] for row in grid] for j in range(2)]
        rest = [v for row in grid for v in row[2:]]
        run('SUM', f'=SUM({a},{b},{c})', cells,
            expected('SUM', col[0] + col[1] + rest), 'partition-3cols')
        run('MIN', f'=MIN({c},{a},{b})', cells,
            expected('MIN', rest + col[0] + col[1]), 'partition-3cols')
    # scalar arguments mixed in: numbers count, direct text does not matter here
    run('SUM', f'=SUM({r},5)', cells, err or math.fsum(nums + [5]),
        'with-scalar')


def check_sumproduct(ctx, h, w, vals, vals2, seed):
    rec, env = ctx
    case = dict(kind='sumproduct', h=h, w=w, vals=list(vals),
                vals2=list(vals2), seed=seed)
    cls = classes_of(list(vals) + list(vals2))
    rec.case(key=('sp', h, w, repr(vals), repr(vals2)),
             nontrivial=len(cls) >= 3,
             labels=('sumproduct', f'classes:{min(len(cls), 4)}'),
             sample=case)
    cells = cells_for(h, w, vals)
    cells.update(cells_for(h, w, vals2, r0=11))
    r1, r2 = rng(h, w), rng(h, w, r0=11)
    err = ref(list(vals) + list(vals2))[0]

    def num(v):
        return v if klass(v) == 'number' else 0
    exp = err or math.fsum(num(a) * num(b) for a, b in zip(vals, vals2))
    scale = math.fsum(abs(float(num(a) * num(b)))
                      for a, b in zip(vals, vals2))
    scale1 = math.fsum(abs(float(num(a))) for a in vals)
    tag = 'err' if err else 'clean'
    if h * w == 1 and (vals[0] is None or vals2[0] is None):
        tag = '1x1-blank'
    try:
        got = env.eval(f'=SUMPRODUCT({r1},{r2})', cells)
        if not ok(exp, got, scale):
            rec.fail(f'SUMPRODUCT:value:{tag}', case,
                     f'SUMPRODUCT over {vals} x {vals2} = {got!r}, expected '
                     f'{exp!r}')
        got1 = env.eval(f'=SUMPRODUCT({r1})', cells)
        e1 = ref(vals)[0] or math.fsum(num(a) for a in vals)
        if not ok(e1, got1, scale1):
            rec.fail(f'SUMPRODUCT:single:{tag}', case,
                     f'SUMPRODUCT({vals}) = {got1!r}, expected {e1!r}')
        if h * w > 1 and not err:
            # shape mismatch
            bad = rng(h, w - 1, r0=11) if w > 1 else rng(h - 1, w, r0=11)
            got2 = env.eval(f'=SUMPRODUCT({r1},{bad})', cells)
            if got2 != '#VALUE!':
                rec.fail('SUMPRODUCT:shape-mismatch', case,
                         f'SUMPRODUCT({r1},{bad}) = {got2!r}')
    except Exception as exc:
        rec.fail(f'SUMPRODUCT:raises:{exc_key(exc)}:{tag}', case,
                 f'SUMPRODUCT over {vals} x {vals2} raised {exc!r}'[:400])


def check_nested(rec, vals, vals2):
    """aggregates over cells that are themselves aggregate formulas"""
    n = len(vals)
    if n == 1 and (vals[0] is None or vals2[0] is None):
        # open finding C14-sumproduct-1x1-blank would cascade through here
        rec.label('excluded:known-finding-1x1-blank')
        return
    case = dict(kind='nested', vals=list(vals), vals2=list(vals2))
    rec.case(key=('nested', repr(vals), repr(vals2)),
             nontrivial=len(classes_of(list(vals) + list(vals2))) >= 3,
             labels=('nested',), sample=case)
    cells = {f'A{i + 1}': v for i, v in enumerate(vals) if v is not None}
    cells.update({f'B{i + 1}': v for i, v in enumerate(vals2)
                  if v is not None})
    ra, rb = f'A1:A{n}', f'B1:B{n}'
    inner = {'G1': f'=SUMPRODUCT({ra},{rb})', 'G2': f'=SUM({ra})',
             'G3': f'=COUNT({rb})', 'G4': f'=MAX({ra},{rb})',
             'G5': f'=AVERAGE({ra})', 'G6': f'=SUMPRODUCT({ra})'}
    outer = {'H1': '=SUM(G1:G6)', 'H2': '=COUNT(G1:G6)', 'H3': '=MAX(G1:G6)',
             'H4': '=MIN(G1:G6)', 'H5': '=ISNUMBER(G1)', 'H6': '=SUM(G1,1)',
             'H7': '=AVERAGE(G1:G4)', 'H8': '=SUMPRODUCT(G1:G3,G2:G4)',
             'H9': '=COUNT(G1)'}
    cells.update(inner)
    cells.update(outer)
    try:
        model = compile_spec({'sheets': {'S': cells}})
        got = {k: model.evaluate(f'S!{k}') for k in list(inner) + list(outer)}
    except Exception as exc:
        rec.fail(f'nested:raises:{exc_key(exc)}', case,
                 f'nested aggregates over {vals},{vals2} raised {exc!r}'[:400])
        return

    def num(v):
        return v if klass(v) == 'number' else 0
    e1, n1 = ref(vals)
    e2, n2 = ref(vals2)
    both = list(vals) + list(vals2)
    g = {
        'G1': ref(both)[0] or math.fsum(num(a) * num(b)
                                        for a, b in zip(vals, vals2)),
        'G2': expected('SUM', vals), 'G3': len(n2) if not e2 else got['G3'],
        'G4': expected('MAX', both), 'G5': expected('AVERAGE', vals),
        'G6': e1 or math.fsum(num(a) for a in vals)}
    gv = [g[f'G{i}'] for i in range(1, 7)]
    exp = dict(g)
    exp.update({
        'H1': expected('SUM', gv), 'H2': expected('COUNT', gv),
        'H3': expected('MAX', gv), 'H4': expected('MIN', gv),
        'H5': klass(g['G1']) == 'number',
        'H6': g['G1'] if klass(g['G1']) == 'error' else g['G1'] + 1,
        'H7': expected('AVERAGE', gv[:4]),
        'H8': ref(gv[:4])[0] or math.fsum(
            num(a) * num(b) for a, b in zip(gv[:3], gv[1:4])),
        'H9': 1 if klass(g['G1']) == 'number' else ('either', 0, g['G1']),
    })
    for k, want in exp.items():
        if not ok(want, got[k]):
            rec.fail(f'nested:{cells[k].split("(")[0][1:]}-over-formulas:'
                     f'{k}', case,
                     f'{k} {cells[k]} = {got[k]!r} ({type(got[k]).__name__}), '
                     f'expected {want!r}; inner cells '
                     f'{ {c: got[c] for c in inner} }')


def check_library_results(rec):
    """aggregates over cells whose values come out of pycel's own numpy
    based functions count them as the numbers they are"""
    cells = {'E1': 1, 'E2': 2, 'E3': 4, 'F1': 1, 'F2': 2, 'F3': 3, 'A1': 5,
             'B1': '=FACTDOUBLE(A1)', 'B2': '=SLOPE(E1:E3,F1:F3)',
             'B3': '=INTERCEPT(E1:E3,F1:F3)', 'B4': '=FACTDOUBLE(4)+0'}
    want_b = [15, 1.5, 2 + 1 / 3 - 1.5 * 2, 8]
    formulas = {f'C{i + 1}': f'={func}(B1:B4)'
                for i, func in enumerate(FUNCS)}
    formulas['C6'] = '=SUMPRODUCT(B1:B4,B1:B4)'
    formulas['C7'] = '=SUBTOTAL(9,B1:B4)'
    formulas['C8'] = '=SUM(B1,B2,B3,B4)'
    formulas['C9'] = '=COUNT(B1)+COUNT(B2)'
    case = dict(kind='library-results')
    rec.case(key=('library-results',), nontrivial=True,
             labels=('library-results',), sample=case)
    want = {f'C{i + 1}': expected(func, want_b)
            for i, func in enumerate(FUNCS)}
    want.update(C6=math.fsum(v * v for v in want_b),
                C7=math.fsum(want_b), C8=math.fsum(want_b), C9=2)
    for order in (sorted(formulas), sorted(formulas, reverse=True)):
        try:
            model = compile_spec({'sheets': {'S': dict(cells, **formulas)}})
            for k in order:
                got = model.evaluate(f'S!{k}')
                if not ok(want[k], got):
                    rec.fail(f'library-results:{formulas[k].split("(")[0][1:]}',
                             case, f'{formulas[k]} over FACTDOUBLE / SLOPE / '
                             f'INTERCEPT results {want_b} = {got!r}, '
                             f'expected {want[k]!r}')
                    return
        except Exception as exc:
            rec.fail(f'library-results:raises:{exc_key(exc)}', case,
                     repr(exc)[:300])
            return


def check_forms(rec, h, w, vals):
    """the same rectangle written as a bounded range, as whole columns and
    as whole rows of a data sheet (one workbook after another in one process,
    with the same sheet titles and different sizes)"""
    if h * w == 1 or all(v is None for v in vals):
        return
    # the used area must end at the rectangle's corner
    if vals[-1] is None:
        vals = list(vals[:-1]) + [0]
    case = dict(kind='forms', h=h, w=w, vals=list(vals))
    rec.case(key=('forms', h, w, repr(vals)),
             nontrivial=len(classes_of(vals)) >= 2, labels=('forms',),
             sample=case)
    data = {k: v for k, v in cells_for(h, w, vals).items() if v is not None}
    forms = {'bounded': f'D!{rng(h, w)}', 'columns': f'D!A:{COLS[w - 1]}',
             'rows': f'D!1:{h}', 'name': 'the_rect'}
    names = {'the_rect': f'D!$A$1:${COLS[w - 1]}${h}'}
    cells = {}
    for i, func in enumerate(FUNCS):
        for j, (name, text) in enumerate(forms.items()):
            cells[f'{COLS[j]}{i + 1}'] = f'={func}({text})'
    try:
        model = compile_spec({'sheets': {'D': data, 'F': cells},
                              'names': names}, filename='forms-book')
        origins = [('compiled', model)]
        if (h + w + len(repr(vals))) % 3 == 0:
            # the same model as it comes back from a file (its constants are
            # then the yaml loader's number types)
            from pycel.excelcompiler import ExcelCompiler
            from vlib.xl import TempDir
            import os
            for a in cells:
                model.evaluate(f'F!{a}')
            fmt = ('yml', 'json', 'pkl')[(h * w) % 3]
            with TempDir() as tmp:
                model.to_file(os.path.join(tmp, 'm'), file_types=(fmt,))
                origins.append((fmt, ExcelCompiler.from_file(
                    os.path.join(tmp, f'm.{fmt}'))))
            rec.label(f'forms:loaded:{fmt}')
        for origin, mdl in origins:
            for i, func in enumerate(FUNCS):
                want = expected(func, vals)
                for j, name in enumerate(forms):
                    got = mdl.evaluate(f'F!{COLS[j]}{i + 1}')
                    if not ok(want, got):
                        rec.fail(f'forms:{func}:{name}' + (
                            '' if origin == 'compiled' else ':loaded'), case,
                            f'{cells[COLS[j] + str(i + 1)]} over a {h}x{w} '
                            f'sheet {vals} ({origin} model) = {got!r}, '
                            f'expected {want!r}')
                        return
    except Exception as exc:
        rec.fail(f'forms:raises:{exc_key(exc)}', case, repr(exc)[:300])


# -- shards -------------------------------------------------------------------

PURITY_TEMPLATES = ['=SUM(A1:B1)',
                    '=SUM(A1,B1)',
                    '=AVERAGE(A1:B1)',
                    '=COUNT(A1:B1)',
                    '=COUNT(A1,B1)',
                    '=COUNTA(A1:B1)',
                    '=MIN(A1:B1)',
                    '=MAX(A1:B1)',
                    '=MIN(A1,B1)',
                    '=MAX(A1,B1)',
                    '=SUMPRODUCT(A1:B1,A1:B1)',
                    '=AVERAGE(A1,B1)']


def shards(tier, seed):
    out = []
    n_h = 12 if tier == 'quick' else 16
    for k in range(n_h):
        out.append(dict(kind='hyp', seed=seed * 1000 + k,
                        n=500 if tier == 'quick' else 40000))
    for k in range(4):
        out.append(dict(kind='nested', seed=seed * 1000 + 100 + k,
                        n=60 if tier == 'quick' else 4000))
    out.append(dict(kind='fixed'))
    out.append(dict(kind='purity'))
    return out


FIXED = [
    (1, 1, [None]), (1, 1, ['a']), (1, 1, [True]), (1, 1, ['#N/A']),
    (2, 2, [1, '1', True, None]), (2, 2, ['a', 'b', '', None]),
    (2, 3, [1, 2, '#DIV/0!', 4, '#N/A', 6]), (1, 3, [0, 0, 0]),
    (3, 1, [-1, -2, -3]), (2, 2, [True, False, True, False]),
    (5, 5, list(range(25))), (2, 2, [1e6, -1e6, 0.1, 0.2]),
]


def run_shard(shard, rec):
    if shard['kind'] == 'purity':
        from vlib import purity
        return purity.run(rec, ID, PURITY_TEMPLATES)
    kind = shard['kind']
    env = FastEnv()
    ctx = (rec, env)
    if kind == 'fixed':
        for h, w, vals in FIXED:
            check_rect(ctx, h, w, vals, 7)
            check_sumproduct(ctx, h, w, vals, vals[::-1], 7)
        check_library_results(rec)
        check_nested(rec, [1, 2, 3], [4, 5, 6])
        check_nested(rec, [1, 'a', True], [None, 2.5, '3'])
    elif kind == 'hyp':
        strategy = st.tuples(values_strategy(), st.booleans())

        def body(case):
            (h, w, vals, seed), with_sp = case
            before = dict(rec.fail_counts)
            check_rect(ctx, h, w, vals, seed)
            if seed % 4 == 0:
                check_forms(rec, h, w, vals)
            if with_sp:
                import random
                rnd = random.Random(seed)
                vals2 = [rnd.choice(NUMBERS + OTHERS + [1, 2, 3])
                         for _ in vals]
                check_sumproduct(ctx, h, w, vals, vals2, seed)
            for k, v in rec.fail_counts.items():
                if v != before.get(k, 0):
                    return k, rec.failures[k][2]
            return None
        hyp.search(rec, strategy, body, shard['n'], shard['seed'])
    elif kind == 'nested':
        value = st.one_of(st.sampled_from(NUMBERS), st.integers(-50, 50),
                          st.sampled_from(OTHERS),
                          st.sampled_from(['#N/A', '#DIV/0!']))
        cleanv = st.one_of(st.sampled_from(NUMBERS), st.integers(-50, 50),
                           st.sampled_from(OTHERS))
        strategy = st.integers(1, 4).flatmap(lambda n: st.one_of(
            st.tuples(st.lists(cleanv, min_size=n, max_size=n),
                      st.lists(cleanv, min_size=n, max_size=n)),
            st.tuples(st.lists(cleanv, min_size=n, max_size=n),
                      st.lists(cleanv, min_size=n, max_size=n)),
            st.tuples(st.lists(value, min_size=n, max_size=n),
                      st.lists(value, min_size=n, max_size=n))))

        def body(case):
            before = dict(rec.fail_counts)
            check_nested(rec, case[0], case[1])
            for k, v in rec.fail_counts.items():
                if v != before.get(k, 0):
                    return k, rec.failures[k][2]
            return None
        hyp.search(rec, strategy, body, shard['n'], shard['seed'])


def replay(case, rec):
    from vlib import purity
    if purity.is_case(case):
        return purity.replay(rec, ID, case)
    env = FastEnv()
    if isinstance(case, list):
        if len(case) == 2 and isinstance(case[0], list) and \
                len(case[0]) == 4 and isinstance(case[0][2], list):
            (h, w, vals, seed), with_sp = case
            check_rect((rec, env), h, w, vals, seed)
        else:
            check_nested(rec, case[0], case[1])
        return
    kind = case['kind']
    if kind == 'library-results':
        check_library_results(rec)
    elif kind == 'forms':
        check_forms(rec, case['h'], case['w'], case['vals'])
    elif kind == 'rect':
        check_rect((rec, env), case['h'], case['w'], case['vals'],
                   case.get('seed', 0))
    elif kind == 'sumproduct':
        check_sumproduct((rec, env), case['h'], case['w'], case['vals'],
                         case['vals2'], case.get('seed', 0))
    else:
        check_nested(rec, case['vals'], case['vals2'])
