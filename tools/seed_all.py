#!/usr/bin/env python3
"""Re-evaluate every stored seeded change against the current checks (quick
tier, seed 1) and print one line each; exits 1 if one is missed.

usage: seed_all.py [name ...]      (default: all of /verif/seeded/*)"""
import json
import os
import subprocess
import sys

names = sys.argv[1:] or sorted(
    n for n in os.listdir('/verif/seeded')
    if os.path.isdir(os.path.join('/verif/seeded', n)))
missed = []
for name in names:
    meta = json.load(open(f'/verif/seeded/{name}/meta.json'))
    pid = meta['property']
    r = subprocess.run(['python3', 'tools/seed_eval.py', pid, '--name', name,
                        '--skip-verify'], cwd='/verif', capture_output=True,
                       text=True)
    line = (r.stdout.strip().splitlines() or [r.stderr[-200:]])[-1]
    print(f'{name:10s} {line[:200]}', flush=True)
    if 'exit=1' not in line:
        missed.append(name)
print('missed:', missed)
sys.exit(1 if missed else 0)
