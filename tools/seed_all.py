#!/usr/bin/env python3
"""Re-evaluate every stored seeded change against the current checks (quick
tier, seed 1) and print one line each; exits 1 if one is missed.

usage: seed_all.py [name ...]      (default: all of /verif/seeded/*)"""
import json
import os
import subprocess
import sys

names = sys.argv[1:] or sorted(
    n for n in os.listdir('/verif/seeded')
    if os.path.isdir(os.path.join('/verif/seeded', n)))
missed = []
for name in names:
    meta = json.load(open(f'/verif/seeded/{name}/meta.json'))
    pid = meta['property']
    # the property's own check, and the neighbouring checks that were found
    # to catch this change (some changes belong to two properties)
    checks = sorted(set([pid]) | {
        c for c, res in meta.get('checks', {}).items() if res.get('exit') == 1})
    r = subprocess.run(['python3', 'tools/seed_eval.py', pid, '--name', name,
                        '--skip-verify', '--checks', ','.join(checks)],
                       cwd='/verif', capture_output=True, text=True)
    lines = [ln for ln in r.stdout.strip().splitlines() if 'exit=' in ln] \
        or [r.stderr[-200:]]
    print(f'{name:10s} ' + ' | '.join(ln[:110] for ln in lines), flush=True)
    if not any('exit=1' in ln for ln in lines):
        missed.append(name)
print('missed:', missed)
sys.exit(1 if missed else 0)
