#!/usr/bin/env python3
"""Verify a seeded change produced in /tmp/wt-<ID> and run checks against it.

usage: seed_eval.py <ID> [--checks C01,C05,...] [--name suffix]
Steps: (1) suite passes with the patch in the scratch worktree, (2) demo fails
with / passes without, (3) copy to /verif/seeded/<name>/, (4) apply to /repo,
run the checks (quick tier), restore /repo."""
import argparse, json, os, shutil, subprocess, sys, time
ap = argparse.ArgumentParser()
ap.add_argument('pid'); ap.add_argument('--checks'); ap.add_argument('--name')
ap.add_argument('--skip-verify', action='store_true')
a = ap.parse_args()
wt = os.environ.get("SEED_WT") or f"/tmp/wt-{a.pid}"
name = a.name or a.pid
dest = f'/verif/seeded/{name}'
env = dict(os.environ, PYTHONPATH=f'{wt}/src', PYTHONDONTWRITEBYTECODE='1')
env.pop('PYCEL_VERIF', None)
def run(cmd, **kw):
    return subprocess.run(cmd, capture_output=True, text=True, **kw)
meta = dict(property=a.pid, name=name)
if not a.skip_verify:
    patch = open(f'{wt}/seeded_patch.diff').read()
    cur = run(['git', '-C', wt, 'diff', '--', 'src']).stdout
    if cur.strip() != patch.strip():
        print('NOTE: worktree diff differs from seeded_patch.diff; using the file after resetting')
        run(['git', '-C', wt, 'checkout', '--', 'src']); r = run(['git', '-C', wt, 'apply', 'seeded_patch.diff'], cwd=wt); assert r.returncode == 0, r.stderr
    t = run(['/venv/bin/python', '-m', 'pytest', '-q', '-p', 'no:cacheprovider'], cwd=wt, env=env)
    tail = t.stdout.strip().splitlines()[-1]
    meta['suite_with_patch'] = tail
    print('suite with patch:', tail)
    d1 = run(['/venv/bin/python', 'seeded_demo.py'], cwd=wt, env=env, timeout=600)
    r = run(['git', '-C', wt, 'apply', '-R', 'seeded_patch.diff'], cwd=wt); assert r.returncode == 0, r.stderr
    d0 = run(['/venv/bin/python', 'seeded_demo.py'], cwd=wt, env=env, timeout=600)
    r = run(['git', '-C', wt, 'apply', 'seeded_patch.diff'], cwd=wt); assert r.returncode == 0, r.stderr
    meta['demo_exit_with_patch'] = d1.returncode; meta['demo_exit_without_patch'] = d0.returncode
    print('demo with patch exit', d1.returncode, '| without', d0.returncode)
    ok = '2988 passed' in tail and d1.returncode == 1 and d0.returncode == 0
    meta['verified'] = ok
    if not ok:
        print('NOT VERIFIED'); print(d1.stdout[-500:], d1.stderr[-500:]); sys.exit(1)
    os.makedirs(dest, exist_ok=True)
    shutil.copy(f'{wt}/seeded_patch.diff', f'{dest}/patch.diff')
    shutil.copy(f'{wt}/seeded_demo.py', f'{dest}/demo.py')
    if os.path.exists(f'{wt}/seeded_notes.md'):
        shutil.copy(f'{wt}/seeded_notes.md', f'{dest}/notes.md')
else:
    meta = json.load(open(f'{dest}/meta.json'))
# run the checks against a scratch worktree of /repo's HEAD with the patch
# applied (PYCEL_REPO_SRC), so that /repo itself and checks running against it
# are never disturbed; the result is the same as `git -C /repo apply` + check +
# `git -C /repo checkout -- .`
ev = f'/tmp/wt-seedeval-{name}'
run(['git', '-C', '/repo', 'worktree', 'remove', '--force', ev])
r = run(['git', '-C', '/repo', 'worktree', 'add', '--detach', ev, 'HEAD']); assert r.returncode == 0, r.stderr
r = run(['git', '-C', ev, 'apply', f'{dest}/patch.diff']); assert r.returncode == 0, r.stderr
results = meta.get('checks', {})
cenv = dict(os.environ, PYCEL_REPO_SRC=f'{ev}/src')
try:
    for c in (a.checks.split(',') if a.checks else [a.pid]):
        t0 = time.time()
        rr = run(['./check', c], cwd='/verif', env=cenv)
        lines = rr.stdout.strip().splitlines()
        viol = [l for l in lines if l.startswith('VIOLATION')]
        klass = next((l.strip() for l in lines if l.startswith('  class:')), '')
        results[c] = dict(exit=rr.returncode, violations=len(viol), first_class=klass, wall=round(time.time()-t0, 1))
        print(f'{c}: exit={rr.returncode} violations={len(viol)} {klass[:150]}')
finally:
    run(['git', '-C', '/repo', 'worktree', 'remove', '--force', ev])
    for c in results: shutil.rmtree(f'/verif/replays/{c}/found', ignore_errors=True)
meta['checks'] = results
meta['what_we_ran'] = ('suite in scratch worktree with patch; demo with and without patch; '
                       './check <ID> (quick tier, seed 1) against a scratch worktree of /repo HEAD '
                       'with the patch applied (PYCEL_REPO_SRC), worktree removed afterwards')
json.dump(meta, open(f'{dest}/meta.json', 'w'), indent=1)
