#!/usr/bin/env python3
"""Add/update an entry of KNOWN_FINDINGS.json and its replay file.

usage: finding.py <finding-id> <property> <open|fixed> <commit-or--> '<text>' '<case json>' [class_key ...]
"""
import json, os, sys
ROOT = os.path.dirname(os.path.dirname(os.path.abspath(__file__)))
fid, prop, status, commit, text, case = sys.argv[1:7]
class_keys = sys.argv[7:]
path = os.path.join(ROOT, 'KNOWN_FINDINGS.json')
data = json.load(open(path)) if os.path.exists(path) else {'findings': []}
data['findings'] = [e for e in data['findings'] if e['id'] != fid]
replay = f'replays/{prop}/{fid}.json'
entry = dict(id=fid, property=prop, status=status, text=text, replay=replay)
if status == 'fixed':
    entry['commit'] = commit
    entry['record'] = f'fixed: property={prop} {commit} {text}'
else:
    entry['class_keys'] = class_keys
    entry['record'] = f'KNOWN-FINDING: property={prop} {text}'
data['findings'].append(entry)
data['findings'].sort(key=lambda e: (e['property'], e['id']))
json.dump(data, open(path, 'w'), indent=1, ensure_ascii=True)
os.makedirs(os.path.join(ROOT, 'replays', prop), exist_ok=True)
json.dump(dict(property=prop, finding=fid, case=json.loads(case)),
          open(os.path.join(ROOT, replay), 'w'), indent=1, ensure_ascii=True)
print('ok', fid)
