#!/usr/bin/env python3
"""Regenerate MANIFEST.json from the property modules present in props/."""
import importlib
import json
import os
import sys

ROOT = os.path.dirname(os.path.dirname(os.path.abspath(__file__)))
sys.path.insert(0, ROOT)
sys.path.insert(0, '/repo/src')

PENDING = ('check not implemented in this revision of /verif; generated-input '
           'search applies (see DESIGN.md), the property is simply not claimed yet')

props = [json.loads(l) for l in open(os.path.join(ROOT, 'properties.jsonl'))]
checks, not_applicable = [], []
for p in props:
    pid = p['id']
    path = os.path.join(ROOT, 'props', pid.lower() + '.py')
    if not os.path.exists(path):
        not_applicable.append(dict(property_id=pid, reason=PENDING))
        continue
    mod = importlib.import_module('props.' + pid.lower())
    checks.append(dict(
        property_id=pid,
        quick_cmd=f'./check {pid} --tier quick',
        thorough_cmd=f'./check {pid} --tier thorough',
        evidence_file=f'evidence/{pid}.json',
        replay_cmd_template=f'./check {pid} --replay {{path}}',
        engine='pbt-runner',
        level_claimed=dict(
            category=mod.LEVEL,
            text=mod.LEVEL_TEXT,
            design_ref=f'DESIGN.md section 4, {pid}'),
        level_note=mod.LEVEL_NOTE,
        technique=mod.TECHNIQUE,
    ))

manifest = dict(
    version=1,
    setup_cmd=('/venv/bin/pip install -q --no-index --find-links '
               '/opt/veriftools/wheels hypothesis && '
               '(/venv/bin/pip install -q --no-index --find-links '
               '/opt/veriftools/wheels --target .deps atheris || true) && '
               'PYTHONPATH=/repo/src:. /venv/bin/python -c '
               '"import hypothesis, pycel, vlib.runner"'),
    hooks=dict(
        guard='PYCEL_VERIF',
        enable=('environment variable PYCEL_VERIF=1 (set by ./check); pycel is '
                'pure python, checks import /repo/src from the working tree in '
                'a fresh interpreter'),
        baseline_off_cmd=('cd /repo && env -u PYCEL_VERIF /venv/bin/python -m '
                          'pytest -ra -q -p no:cacheprovider --timeout=900 '
                          '--continue-on-collection-errors'),
        source_commits=['a4e4cf5'],
        add_only=True,
    ),
    engines=[dict(
        name='pbt-runner', path='vlib/runner.py',
        serves_properties=[c['property_id'] for c in checks],
        kind_free_text=('property-based testing: Hypothesis strategies and '
                        'exhaustive enumeration of finite sub-domains, sharded '
                        'over 16 processes, explicit oracle per property, '
                        'failures shrunk and written as plain-JSON replay files'),
    )],
    checks=checks,
    not_applicable=not_applicable,
    notes=('./check <ID> [--tier quick|thorough] [--replay FILE]; exit 0 held, '
           '1 VIOLATION, 2 harness error/inconclusive. Known findings: '
           'KNOWN_FINDINGS.json. Regression inputs: replays/<ID>/*.json.'),
)
with open(os.path.join(ROOT, 'MANIFEST.json'), 'w') as f:
    json.dump(manifest, f, indent=1)
    f.write('\n')
print('checks:', [c['property_id'] for c in checks])
