#!/usr/bin/env python3
"""Sensitivity test: apply a textual mutation to a scratch worktree of /repo's
HEAD, run checks against it (PYCEL_REPO_SRC), remove the worktree.  /repo
itself is never touched.

usage: sens.py <props comma list> <file> <old> <new> [--tier quick]"""
import os
import subprocess
import sys

props, path, old, new = sys.argv[1:5]
wt = f'/tmp/wt-sens-{os.getpid()}'
subprocess.run(['git', '-C', '/repo', 'worktree', 'add', '--detach', wt,
                'HEAD'], capture_output=True, check=True)
try:
    full = os.path.join(wt, path)
    src = open(full).read()
    if src.count(old) < 1:
        sys.exit(f'pattern not found in {path}')
    open(full, 'w').write(src.replace(old, new, 1))
    env = dict(os.environ, PYCEL_REPO_SRC=wt + '/src')
    for p in props.split(','):
        r = subprocess.run(['./check', p] + sys.argv[5:], cwd='/verif',
                           capture_output=True, text=True, env=env)
        lines = r.stdout.strip().splitlines()
        viol = [l for l in lines if l.startswith('VIOLATION')]
        print(f'{p}: exit={r.returncode} violations={len(viol)} :: '
              f'{lines[-1] if lines else r.stderr[-300:]}')
        for l in lines:
            if l.startswith('  class:'):
                print('   ', l.strip())
                break
finally:
    subprocess.run(['git', '-C', '/repo', 'worktree', 'remove', '--force',
                    wt], capture_output=True)
    subprocess.run(['rm', '-rf'] + [f'/verif/replays/{p}/found'
                                    for p in props.split(',')])
