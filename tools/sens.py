#!/usr/bin/env python3
"""Sensitivity test: apply a textual mutation to /repo, run checks, restore.

usage: sens.py <props comma list> <file> <old> <new> [--tier quick]
Refuses to run if /repo has uncommitted changes."""
import subprocess, sys, os
props, path, old, new = sys.argv[1:5]
repo = '/repo'
if subprocess.run(['git', '-C', repo, 'status', '--porcelain', '--untracked-files=no'],
                  capture_output=True, text=True).stdout.strip():
    sys.exit('repo dirty')
full = os.path.join(repo, path)
src = open(full).read()
if src.count(old) < 1:
    sys.exit(f'pattern not found in {path}')
try:
    open(full, 'w').write(src.replace(old, new, 1))
    for p in props.split(','):
        r = subprocess.run(['./check', p] + sys.argv[5:], cwd='/verif',
                           capture_output=True, text=True)
        lines = r.stdout.strip().splitlines()
        viol = [l for l in lines if l.startswith('VIOLATION')]
        print(f'{p}: exit={r.returncode} violations={len(viol)} :: {lines[-1] if lines else r.stderr[-300:]}')
        for l in lines:
            if l.startswith('  class:'):
                print('   ', l.strip()); break
finally:
    subprocess.run(['git', '-C', repo, 'checkout', '--', '.'])
    subprocess.run(['rm', '-rf'] + [f'/verif/replays/{p}/found' for p in props.split(',')])
