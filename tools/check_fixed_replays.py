#!/usr/bin/env python3
"""For every 'fixed' finding: revert its commit in /repo's working tree, run
the finding's replay, expect a VIOLATION; restore the tree."""
import json, subprocess, sys
data = json.load(open('/verif/KNOWN_FINDINGS.json'))
assert not subprocess.run(['git', '-C', '/repo', 'status', '--porcelain', '--untracked-files=no'], capture_output=True, text=True).stdout.strip()
for e in data['findings']:
    if e['status'] != 'fixed':
        continue
    patch = subprocess.run(['git', '-C', '/repo', 'show', e['commit']], capture_output=True, text=True).stdout
    r = subprocess.run(['git', '-C', '/repo', 'apply', '-R', '--3way'], input=patch, capture_output=True, text=True)
    if r.returncode != 0:
        subprocess.run(['git', '-C', '/repo', 'checkout', '--', '.'])
        subprocess.run(['git', '-C', '/repo', 'reset', '-q'])
        print(f"{e['id']:40s} revert-conflict")
        continue
    run = subprocess.run(['./check', e['property'], '--replay', e['replay']], cwd='/verif', capture_output=True, text=True)
    print(f"{e['id']:40s} exit={run.returncode} {'DETECTS' if run.returncode == 1 else 'MISSES'}")
    subprocess.run(['git', '-C', '/repo', 'reset', '-q'])
    subprocess.run(['git', '-C', '/repo', 'checkout', '--', '.'])
