#!/usr/bin/env python3
"""For every 'fixed' finding: revert its commit in a scratch worktree of
/repo (never in /repo itself), run the finding's replay against that tree
(PYCEL_REPO_SRC) and expect a VIOLATION; then against /repo and expect none.
The scratch worktree is removed at the end."""
import json
import os
import subprocess
import sys

WT = os.environ.get('SEED_WT', '/tmp/wt-fixed-replays')
data = json.load(open('/verif/KNOWN_FINDINGS.json'))
subprocess.run(['git', '-C', '/repo', 'worktree', 'remove', '--force', WT],
               capture_output=True)
subprocess.run(['git', '-C', '/repo', 'worktree', 'add', '--detach', WT,
                'HEAD'], capture_output=True, check=True)
only = sys.argv[1:]
try:
    for e in data['findings']:
        if e['status'] != 'fixed' or (only and e['id'] not in only):
            continue
        subprocess.run(['git', '-C', WT, 'reset', '-q', '--hard', 'HEAD'])
        r = subprocess.run(['git', '-C', WT, 'revert', '-n', e['commit']],
                           capture_output=True, text=True)
        if r.returncode != 0:
            print(f"{e['id']:40s} revert-conflict")
            continue
        env = dict(os.environ, PYCEL_REPO_SRC=WT + '/src')
        cmd = ['./check', e['property'], '--replay', e['replay']]
        bad = subprocess.run(cmd, cwd='/verif', capture_output=True,
                             text=True, env=env)
        good = subprocess.run(cmd, cwd='/verif', capture_output=True,
                              text=True)
        print(f"{e['id']:40s} reverted: exit={bad.returncode} "
              f"{'DETECTS' if bad.returncode == 1 else 'MISSES'}   "
              f"head: exit={good.returncode}", flush=True)
finally:
    subprocess.run(['git', '-C', '/repo', 'worktree', 'remove', '--force',
                    WT])
